"""Worker: shared state between a model, its copies and earlier calculations, observed
against *isolated* references.  python -m harness.cpjob <job.json> <out.json>

Lifecycle!HistoryFree / Independent: what calculate() returns depends on the model and the
supplied inputs only - not on earlier calculations, not on what a copy (deepcopy, dill,
JSON round trip) was asked.  A workbook here is a dictionary model with three input cells
and formulas drawn from a broad function vocabulary.  A history interleaves calculations
on the model and on a copy; every calculation's result is compared with the result of the
same (model, inputs) computed in a process of its own that has evaluated nothing else
(this process never evaluates anything; every task runs in a forked child used once).
Inputs are drawn so that values equal under == but of different types follow each other
(1 / TRUE / "1", 0 / FALSE): what a shared cache keyed on them would confuse.
"""
import sys
import json
import copy
import random
import multiprocessing as mp

UNARY = ['ABS', 'INT', 'SIGN', 'SQRT', 'EXP', 'LN', 'LEN', 'UPPER', 'LOWER', 'TRIM', 'NOT', 'ISNUMBER',
         'ISTEXT', 'ISERROR', 'ISLOGICAL', 'ISEVEN', 'ISODD', 'DEC2BIN', 'DEC2HEX', 'DEC2OCT', 'BIN2DEC',
         'HEX2DEC', 'OCT2DEC', 'BIN2HEX', 'HEX2BIN', 'FACT', 'ROMAN', 'CHAR', 'CODE', 'T', 'VALUE', 'YEAR',
         'MONTH', 'DAY', 'HOUR', 'EVEN', 'ODD', 'RADIANS', 'COS', 'SUM', 'MAX', 'COUNT', 'COUNTA', 'AVERAGE',
         'ISBLANK', 'TRUNC', 'ARABIC']
BINARY = ['ROUND', 'ROUNDUP', 'MOD', 'POWER', 'LEFT', 'RIGHT', 'DEC2BIN', 'DEC2HEX', 'ATAN2', 'CEILING', 'FLOOR',
          'LOG', 'EDATE', 'WEEKDAY', 'CONCATENATE', 'IFERROR', 'MATCH', 'COUNTIF', 'LARGE', 'MROUND']
OPS = ['+', '-', '*', '/', '&', '=', '<', '>=', '<>', '^']
VALUES = [1, True, 0, False, '1', 2.5, 'ab', 7, -3, '', 10, 'TRUE', 1.0, 0.0]
CELLS = ['A1', 'A2', 'A3']


def make_model(seed):
    rnd = random.Random(seed * 101 + 7)
    d = {c: rnd.choice(VALUES) for c in CELLS}
    for k in range(8):
        r = rnd.random()
        a, b = rnd.choice(CELLS), rnd.choice(CELLS)
        if r < 0.5:
            f = '=%s(%s)' % (rnd.choice(UNARY), a)
        elif r < 0.8:
            f = '=%s(%s,%s)' % (rnd.choice(BINARY), a, b)
        else:
            f = '=%s%s%s' % (a, rnd.choice(OPS), b)
        d['B%d' % (k + 1)] = f
    d['C1'] = '=IF(ISERROR(B1),0,1)+COUNT(A1:A3)'
    return d


def make_inputs(rnd):
    return {c: rnd.choice(VALUES) for c in rnd.sample(CELLS, rnd.randint(1, 3))}


def show(sol, keys):
    from . import values as V
    out = {}
    for k in keys:
        v = sol.get(k)
        if v is None:
            out[k] = None
            continue
        v = v.value if hasattr(v, 'ranges') else v
        out[k] = V.show(V.alpha(v))
    return out


def _load():
    from . import impl
    return impl.F()


def reference(task):
    """One (model, inputs) in a process that has evaluated nothing else."""
    f = _load()
    d, inp = task
    m = f.ExcelModel().from_dict(dict(d))
    sol = m.calculate(inputs=dict(inp)) if inp else m.calculate()
    return show(sol, sorted(d))


def history(task):
    """The history on one model and its copy, in one process."""
    f = _load()
    import dill
    d, steps, how = task['model'], task['steps'], task['copy']
    objs = {'m': f.ExcelModel().from_dict(dict(d))}
    out = []
    for st in steps:
        if st['op'] == 'copy':
            m = objs['m']
            if how == 'deepcopy':
                objs['c'] = copy.deepcopy(m)
            elif how == 'dill':
                objs['c'] = dill.loads(dill.dumps(m))
            else:
                objs['c'] = f.ExcelModel().from_dict(json.loads(json.dumps(m.to_dict())))
            out.append(None)
            continue
        o = objs.get(st['on']) or objs['m']
        try:
            sol = o.calculate(inputs=dict(st['inputs'])) if st['inputs'] else o.calculate()
            out.append(show(sol, sorted(d)))
        except BaseException as ex:  # noqa
            if isinstance(ex, (KeyboardInterrupt, SystemExit)):
                raise
            out.append({'_raises': type(ex).__name__})
    return out


def safe(fn):
    def run(task):
        try:
            return fn(task)
        except BaseException as ex:  # noqa
            if isinstance(ex, (KeyboardInterrupt, SystemExit)):
                raise
            return {'_raises': '%s: %s' % (type(ex).__name__, str(ex)[:150])}
    return run


def _ref(task):
    return safe(reference)(task)


def _hist(task):
    return safe(history)(task)


def main():
    job = json.load(open(sys.argv[1]))
    tasks = []
    for it in job['items']:
        s = it['seed']
        rnd = random.Random(s * 13 + 1)
        d = make_model(s)
        steps = [{'op': 'calc', 'on': 'm', 'inputs': make_inputs(rnd)},
                 {'op': 'copy'},
                 {'op': 'calc', 'on': 'c', 'inputs': make_inputs(rnd)},
                 {'op': 'calc', 'on': 'm', 'inputs': make_inputs(rnd)},
                 {'op': 'calc', 'on': 'c', 'inputs': make_inputs(rnd)},
                 {'op': 'calc', 'on': 'm', 'inputs': {}}]
        # the same cell with ==-equal values of another type on the other object
        twin = {1: True, True: 1, 0: False, False: 0, '1': 1, 1.0: True}
        for a, b in ((0, 2), (3, 4)):
            for c, v in list(steps[a]['inputs'].items()):
                if type(v) in (int, bool, float, str) and v in twin and rnd.random() < 0.7:
                    steps[b]['inputs'][c] = twin[v]
        tasks.append({'seed': s, 'model': d, 'steps': steps, 'copy': it['copy']})
    ctx = mp.get_context('fork')
    refs = [(t['model'], st['inputs']) for t in tasks for st in t['steps'] if st['op'] == 'calc']
    with ctx.Pool(job.get('procs', 16), maxtasksperchild=1) as pool:
        ref_res = pool.map(_ref, refs, chunksize=1)
        hist_res = pool.map(_hist, tasks, chunksize=1)
    out, k = [], 0
    for t, hr in zip(tasks, hist_res):
        rec = {'seed': t['seed'], 'copy': t['copy'], 'model': t['model'], 'problems': [], 'n': 0}
        if isinstance(hr, dict):
            rec['exc'] = hr['_raises']
            k += sum(1 for st in t['steps'] if st['op'] == 'calc')
            out.append(rec)
            continue
        for i, st in enumerate(t['steps']):
            if st['op'] != 'calc':
                continue
            ref = ref_res[k]
            k += 1
            got = hr[i]
            if '_raises' in ref or got is None or '_raises' in got:
                if ('_raises' in ref) != (got is not None and '_raises' in got):
                    rec['problems'].append({'step': i, 'on': st['on'], 'inputs': repr(st['inputs']),
                                            'isolated': ref, 'in_history': got})
                continue
            for cell in sorted(ref):
                rec['n'] += 1
                if ref[cell] != got.get(cell):
                    rec['problems'].append({'step': i, 'on': st['on'], 'inputs': repr(st['inputs']),
                                            'cell': cell, 'formula': t['model'].get(cell),
                                            'isolated': ref[cell], 'in_history': got.get(cell)})
        out.append(rec)
    json.dump(out, open(sys.argv[2], 'w'))


if __name__ == '__main__':
    main()
