"""Materialise an abstract workbook (wbgen.Gen) and run the real library on it."""
import os
import random
from . import impl
from . import values as V
from . import wbgen as G


def dict_spelling(g, rnd=None, spell_rnd=None):
    """The workbook as the dictionary ExcelModel.from_dict reads (all
    references fully qualified, as to_dict writes them)."""
    items = []
    for i, c in g.cells.items():
        b, s, col, row = G.parse_id(i)
        if c['k'] == 'c':
            items.append((G.node_name(i), G.cell_python_value(c['v'])))
        elif c['k'] == 'f':
            items.append((G.node_name(i), '=' + G.expr_text(g, c['e'], (b, s), 'full', spell_rnd)))
        elif c['k'] == 'af':
            items.append((G.rect_node_name(*c['rect']),
                          '=' + G.expr_text(g, c['e'], (b, s), 'full', spell_rnd)))
    for n, e in g.names.items():
        b, local, full = G.name_text(g, e)
        items.append(("'[%s]'!%s" % (b, n), '=' + full))
    if rnd is not None:
        rnd.shuffle(items)
    return dict(items)


def name_ref_text(g, n):
    b = G.name_text(g, g.names[n])[0]
    return "'[%s]'!%s" % (b, n)


def _ext_link(target, sheets):
    from openpyxl.packaging.relationship import Relationship
    from openpyxl.workbook.external_link.external import (ExternalLink, ExternalBook,
                                                           ExternalSheetNames)
    el = ExternalLink(externalBook=ExternalBook(sheetNames=ExternalSheetNames(sheetName=sheets)))
    el.file_link = Relationship(type='externalLinkPath', Target=target, TargetMode='External')
    return el


# write_xlsx(spill_cache=True): the spill cells of array formulas hold a (stale) cached
# value in the file, as files saved by Excel do; the array formula alone defines them
SPILL_CACHE = False


def write_xlsx(g, dirpath, rnd=None, spell_rnd=None, qualify='min', links=None):
    """One .xlsx per book; returns {book: path}.  links='numeric': every book gets an
    external-link table whose first entry is a file the library cannot read (LEGACY.XLS)
    followed by the other books, and cross-book references are written [n]Sheet!A1."""
    impl.F()
    import openpyxl
    if links == 'numeric':
        names = sorted({b for b, _ in g.sheets})
        G.LINKS = {hb: {b: k + 2 for k, b in enumerate(x for x in names if x != hb)} for hb in names}
        with open(os.path.join(dirpath, 'LEGACY.XLS'), 'wb') as fh:
            fh.write(b'\xd0\xcf\x11\xe0 not a workbook this library can read')
    try:
        return _write_xlsx(g, dirpath, rnd, spell_rnd, qualify, links)
    finally:
        G.LINKS = None


def _write_xlsx(g, dirpath, rnd, spell_rnd, qualify, links):
    import openpyxl
    from openpyxl.workbook.defined_name import DefinedName
    from openpyxl.worksheet.formula import ArrayFormula
    books = {}
    sheets = list(g.sheets)
    if rnd is not None:
        rnd.shuffle(sheets)
    for b, s in sheets:
        if b not in books:
            wb = openpyxl.Workbook()
            wb.remove(wb.active)
            books[b] = wb
        books[b].create_sheet(G.FILE_TITLES.get(s, s))
    cells = list(g.cells.items())
    if rnd is not None:
        rnd.shuffle(cells)
    for i, c in cells:
        b, s, col, row = G.parse_id(i)
        ws = books[b][G.FILE_TITLES.get(s, s)]
        if c['k'] == 'c':
            ws.cell(row=row, column=col).value = G.cell_python_value(c['v'])
            if c['v']['k'] == 't':
                ws.cell(row=row, column=col).data_type = 's'
        elif c['k'] == 'f':
            ws.cell(row=row, column=col).value = '=' + G.expr_text(g, c['e'], (b, s), qualify, spell_rnd)
        elif c['k'] == 'af':
            _, _, c1, r1, c2, r2 = c['rect']
            ref = '%s:%s' % (G.a1(c1, r1), G.a1(c2, r2))
            ws[G.a1(col, row)] = ArrayFormula(ref, '=' + G.expr_text(g, c['e'], (b, s), qualify, spell_rnd))
        elif c['k'] == 'sp' and SPILL_CACHE:
            ws.cell(row=row, column=col).value = 999
    for n, e in g.names.items():
        b, local, full = G.name_text(g, e)
        books[b].defined_names[n] = DefinedName(n, attr_text=local)
    paths = {}
    if links == 'numeric':
        for hb, wb in books.items():
            wb._external_links.append(_ext_link('LEGACY.XLS', ['S1']))
            for b, k in sorted(G.LINKS[hb].items(), key=lambda kv: kv[1]):
                wb._external_links.append(_ext_link(b, sorted({s for bb, s in g.sheets if bb == b})))
    for b, wb in books.items():
        p = os.path.join(dirpath, b)
        wb.save(p)
        paths[b] = p
    return paths


def node_value(sol, g, i):
    """Abstract value of cell id i in a solution (None when the model has no
    node for it)."""
    name = G.node_name(i)
    if name in sol:
        v = sol[name]
        v = v.value if hasattr(v, 'ranges') else v
        return V.alpha(_first(v))
    c = g.cells.get(i)
    if c is not None and c['k'] in ('af', 'sp'):
        anchor = i if c['k'] == 'af' else c['anchor']
        a = g.cells[anchor]
        rn = G.rect_node_name(*a['rect'])
        if rn in sol:
            v = sol[rn]
            v = v.value if hasattr(v, 'ranges') else v
            ii, jj = (0, 0) if c['k'] == 'af' else (c['i'] - 1, c['j'] - 1)
            import numpy as np
            arr = np.asarray(v, object)
            if arr.ndim == 2 and ii < arr.shape[0] and jj < arr.shape[1]:
                return V.alpha(arr[ii, jj])
            return {'k': 'foreign', 'repr': 'shape%s' % (arr.shape,)}
    return None


def _first(v):
    import numpy as np
    if isinstance(v, np.ndarray) and v.size >= 1 and v.ndim == 2:
        return v[0, 0]
    return v


def observe_all(sol, g):
    out = {}
    for i in g.cells:
        out[i] = node_value(sol, g, i)
    return out


def build_dict(g, rnd=None, spell_rnd=None):
    f = impl.F()
    return f.ExcelModel().from_dict(dict_spelling(g, rnd, spell_rnd))


def build_files(g, dirpath, rnd=None, spell_rnd=None, qualify='min', load='all', links=None):
    f = impl.F()
    paths = write_xlsx(g, dirpath, rnd, spell_rnd, qualify, links)
    order = sorted(paths)
    if rnd is not None:
        rnd.shuffle(order)
    if load == 'first':
        order = [sorted(paths)[0]]
    elif load == 'last':
        order = [sorted(paths)[-1]]
    return f.ExcelModel().loads(*[paths[b] for b in order]).finish()


def run_dict(g, rnd=None, spell_rnd=None, inputs=None, outputs=None):
    f = impl.F()
    d = dict_spelling(g, rnd, spell_rnd)
    m = f.ExcelModel().from_dict(d)
    kw = {}
    if inputs:
        kw['inputs'] = inputs
    if outputs:
        kw['outputs'] = outputs
    sol = m.calculate(**kw)
    return m, sol


def run_files(g, dirpath, rnd=None, spell_rnd=None, qualify='min', load='all'):
    f = impl.F()
    paths = write_xlsx(g, dirpath, rnd, spell_rnd, qualify)
    order = sorted(paths)
    if rnd is not None:
        rnd.shuffle(order)
    if load == 'first':
        order = [sorted(paths)[0]]
    m = f.ExcelModel().loads(*[paths[b] for b in order]).finish()
    sol = m.calculate()
    return m, sol
