"""Shared machinery: environment, repo binding, verdicts, findings, evidence."""
import os
import sys
import json
import time
import shutil
import hashlib
import tempfile
import traceback

VERIF = os.path.dirname(os.path.dirname(os.path.abspath(__file__)))
SPEC = os.path.join(VERIF, 'spec')
EVIDENCE = os.environ.get('VERIF_EVIDENCE_DIR') or os.path.join(VERIF, 'evidence')
REPLAY = os.path.join(EVIDENCE, 'replay')
FINDINGS = os.path.join(VERIF, 'known_findings.jsonl')
REPO = os.environ.get('VERIF_REPO', '/repo')
PY = '/venv/bin/python'
NCPU = min(16, os.cpu_count() or 1)


def seed():
    try:
        return int(os.environ.get('VERIF_SEED', '0') or 0)
    except ValueError:
        return 0


def tier():
    t = os.environ.get('VERIF_TIER', 'quick')
    return t if t in ('quick', 'thorough') else 'quick'


def bind_repo():
    """Make `import formulas` resolve to the working tree under test, with the
    hooks enabled.  Must be called before formulas is imported."""
    os.environ['FORMULAS_VERIF'] = '1'
    os.environ.pop('FORMULAS_VERIF_TRACE', None)
    if REPO not in sys.path[:1]:
        sys.path.insert(0, REPO)
    import warnings
    warnings.filterwarnings('ignore')
    import logging
    logging.disable(logging.CRITICAL)
    import formulas  # noqa
    p = os.path.dirname(os.path.abspath(formulas.__file__))
    if os.path.realpath(p) != os.path.realpath(os.path.join(REPO, 'formulas')):
        raise MachineryError('formulas imported from %s, not %s' % (p, REPO))
    return formulas


class MachineryError(Exception):
    pass


def workdir(tag):
    base = os.environ.get('VERIF_WORK', '/tmp')
    return tempfile.mkdtemp(prefix='verif-%s-' % tag, dir=base)


def canon(o):
    return json.dumps(o, sort_keys=True, default=str)


def sha(o):
    return hashlib.sha1(canon(o).encode()).hexdigest()[:12]


# ---------------------------------------------------------------------------
# Known findings
# ---------------------------------------------------------------------------
def load_findings(pid):
    out = []
    if os.path.exists(FINDINGS):
        for line in open(FINDINGS):
            line = line.strip()
            if not line or line.startswith('#'):
                continue
            e = json.loads(line)
            if e.get('property') == pid:
                out.append(e)
    return out


def _sig_match(esig, sig):
    """An entry matches when every key of its signature is present in the
    violation's signature with the same value (lists in the entry mean
    'one of')."""
    for k, v in esig.items():
        if k not in sig:
            return False
        s = sig[k]
        if isinstance(v, dict) and 'oneof' in v:
            if s not in v['oneof']:
                return False
        elif s != v:
            return False
    return True


class Report:
    """Collects verdicts for one check run and writes evidence."""

    def __init__(self, pid, level='model_checking'):
        self.pid, self.level = pid, level
        self.t0 = time.time()
        self.findings = load_findings(pid)
        self.known_hit = {}
        self.violations = []
        self.cov = {
            'states': 0, 'transitions': 0, 'traces_validated_against_impl': 0,
            'evaluations': 0, 'distinct_nontrivial': 0, 'samples': [],
            'rule': '', 'tlc_runs': [], 'known_findings_hit': [],
        }
        self.assumptions = []
        self._distinct = set()
        self.max_replays = 25

    # -- coverage -----------------------------------------------------------
    def add_tlc(self, res, name):
        self.cov['states'] += res.get('distinct', 0)
        self.cov['transitions'] += res.get('generated', 0)
        self.cov['tlc_runs'].append({
            'name': name, 'distinct': res.get('distinct', 0),
            'generated': res.get('generated', 0),
            'wall_s': round(res.get('wall_s', 0), 2),
            'coverage': res.get('coverage'),
        })

    def count(self, n=1):
        self.cov['evaluations'] += n

    def distinct(self, key):
        self._distinct.add(key if isinstance(key, (str, int, tuple))
                           else sha(key))

    def traces(self, n=1):
        self.cov['traces_validated_against_impl'] += n

    def sample(self, s, cap=6):
        if len(self.cov['samples']) < cap:
            self.cov['samples'].append(s)

    # -- verdicts -----------------------------------------------------------
    def violation(self, sig, detail):
        """sig: abstract signature (dict) used to match known findings;
        detail: everything needed to replay."""
        for e in self.findings:
            if e.get('kind') == 'known' and _sig_match(e['sig'], sig):
                key = canon(e['sig'])
                self.known_hit[key] = e
                return False
        self.violations.append({'sig': sig, 'detail': detail})
        return True

    def finish(self, extra=None):
        os.makedirs(REPLAY, exist_ok=True)
        for f in os.listdir(REPLAY):
            if f.startswith(self.pid + '-'):
                os.remove(os.path.join(REPLAY, f))
        for e in self.known_hit.values():
            print('KNOWN-FINDING: property=%s %s' % (self.pid, e['what']))
            self.cov['known_findings_hit'].append(e['what'])
        dump = os.environ.get('VERIF_DUMP')
        if dump:
            with open(dump, 'w') as f:
                for v in self.violations:
                    f.write(json.dumps(v, default=str) + '\n')
        seen = set()
        n = 0
        for v in self.violations:
            k = canon(v['sig'])
            if k in seen:
                continue
            seen.add(k)
            if n >= self.max_replays:
                continue
            n += 1
            path = os.path.join(REPLAY, '%s-%03d.json' % (self.pid, n))
            with open(path, 'w') as f:
                json.dump({'property': self.pid, 'seed': seed(),
                           'tier': tier(), **v}, f, indent=1, default=str)
            print('VIOLATION property=%s replay=%s' % (self.pid, path))
        self.cov['distinct_nontrivial'] = len(self._distinct)
        if extra:
            self.cov.update(extra)
        ev = {
            'property_id': self.pid, 'tier': tier(), 'seed': seed(),
            'level': self.level, 'coverage': self.cov,
            'assumptions': self.assumptions,
            'wall_s': round(time.time() - self.t0, 2),
            'violations': len(seen),
        }
        os.makedirs(EVIDENCE, exist_ok=True)
        with open(os.path.join(EVIDENCE, self.pid + '.json'), 'w') as f:
            json.dump(ev, f, indent=1, default=str)
        return 1 if seen else 0


def pmap(func, items, chunk=None, procs=None):
    """Parallel map over worker processes (fork), preserving order."""
    import multiprocessing as mp
    items = list(items)
    procs = procs or NCPU
    if len(items) < 2 or procs == 1:
        return [func(x) for x in items]
    ctx = mp.get_context('fork')
    with ctx.Pool(procs) as pool:
        return pool.map(func, items, chunksize=chunk or max(
            1, len(items) // (procs * 8)))


def shards(items, n):
    items = list(items)
    k = max(1, (len(items) + n - 1) // n)
    return [items[i:i + k] for i in range(0, len(items), k)]


def main_wrapper(run):
    """exit 0 held / 1 violation / 2 machinery failure."""
    try:
        code = run()
    except MachineryError as ex:
        print('MACHINERY-FAILURE: %s' % ex)
        sys.exit(2)
    except SystemExit:
        raise
    except BaseException:
        traceback.print_exc()
        print('MACHINERY-FAILURE: unexpected exception')
        sys.exit(2)
    sys.exit(code)
