"""Seeded random workbooks in abstract form, their JSON for Workbook.tla, and
their concretisation as formula text (dict path and .xlsx path)."""
import random
from . import values as V

COLS = 'ABCDEFGH'
LAYOUT = [('B1.XLSX', 'S1'), ('B1.XLSX', 'S2'), ('B2.XLSX', 'T1')]
LAYOUT_SAME = [('B1.XLSX', 'S1'), ('B2.XLSX', 'S1'), ('B2.XLSX', 'S2')]   # same sheet title in two books
# sheet titles whose upper / lower case mappings are not mirror images: the model knows
# them by their upper-cased form, the file keeps the original spelling
LAYOUT_CASE = [('B1.XLSX', 'STRASSE'), ('B1.XLSX', '\u039cG'), ('B2.XLSX', 'T1')]
FILE_TITLES = {'STRASSE': 'Stra\u00dfe', '\u039cG': '\u00b5g'}
NAME_BOOK = 'B1.XLSX'   # defined names live in (and are used from) the first book


def cid(book, sheet, c, r):
    return '%s|%s|%d,%d' % (book, sheet, c, r)


def parse_id(i):
    b, s, cr = i.split('|')
    c, r = cr.split(',')
    return b, s, int(c), int(r)


def a1(c, r):
    return '%s%d' % (COLS[c - 1], r)


def node_name(i):
    """The library's canonical node name of a cell id."""
    b, s, c, r = parse_id(i)
    return "'[%s]%s'!%s" % (b, s, a1(c, r))


def rect_node_name(b, s, c1, r1, c2, r2):
    return "'[%s]%s'!%s:%s" % (b, s, a1(c1, r1), a1(c2, r2))


NUMS = [V.N(0), V.N(1), V.N(2), V.N(3), V.N(-2), V.N(5), V.N(1, 2), V.N(7), V.N(10)]
TEXTS = [V.T('a'), V.T('B'), V.T('q7'), V.T('x y')]
ERRS = [V.E('NA'), V.E('DIV0'), V.E('VALUE')]


def norm(v):
    if v['k'] == 'n':
        return {'k': 'n', 'n': v['n'], 'd': v['d'], 'e': v.get('e', 0)}
    return dict(v)


def rnd_const(rnd, kinds='ntbe'):
    r = rnd.random()
    if r < 0.62 or kinds == 'n':
        return norm(rnd.choice(NUMS))
    if r < 0.78:
        return norm(rnd.choice(TEXTS))
    if r < 0.88:
        return V.B(rnd.random() < 0.5)
    return norm(rnd.choice(ERRS))


class Gen:
    def __init__(self, rnd, n_cells=8, sheets=None, grid=(4, 4), features=()):
        self.rnd = rnd
        self.n_cells = n_cells
        self.sheets = sheets or rnd.choice([LAYOUT[:1], LAYOUT[:2], LAYOUT[:2], LAYOUT, LAYOUT, LAYOUT_SAME])
        self.grid = grid
        self.features = set(features)
        self.cells = {}          # id -> cell
        self.order = []          # generation (topological) order
        self.names = {}          # name -> expr (generator form)
        self.reserved = set()    # ids inside array-formula rectangles
        self.host_book = None

    # ---- helpers ----------------------------------------------------------
    def free_pos(self):
        for _ in range(200):
            b, s = self.rnd.choice(self.sheets)
            c, r = self.rnd.randint(1, self.grid[0]), self.rnd.randint(1, self.grid[1])
            i = cid(b, s, c, r)
            if i not in self.cells and i not in self.reserved:
                return b, s, c, r
        return None

    def pick_ref(self, allow_blank=True):
        if self.order and (not allow_blank or self.rnd.random() < 0.85):
            return self.rnd.choice(self.order)
        b, s = self.rnd.choice(self.sheets)
        for _ in range(50):
            i = cid(b, s, self.rnd.randint(1, self.grid[0]), self.rnd.randint(1, self.grid[1]))
            if i not in self.cells and i not in self.reserved:
                return i
        return self.rnd.choice(self.order)

    def pick_rect(self):
        b, s = self.rnd.choice(self.sheets)
        c1 = self.rnd.randint(1, self.grid[0])
        r1 = self.rnd.randint(1, self.grid[1])
        c2 = min(self.grid[0], c1 + self.rnd.choice([0, 0, 1, 2]))
        r2 = min(self.grid[1], r1 + self.rnd.choice([0, 1, 1, 2, 3]))
        return ['rng', b, s, c1, r1, c2, r2]

    def rect_ids(self, e):
        if e[0] == 'col':        # a whole column: the populated part is the grid's rows
            _, b, s, c = e
            return [[cid(b, s, c, r)] for r in range(1, self.grid[1] + 1)]
        _, b, s, c1, r1, c2, r2 = e
        return [[cid(b, s, c, r) for c in range(c1, c2 + 1)] for r in range(r1, r2 + 1)]

    def scalar_expr(self, depth=1):
        r = self.rnd.random()
        if r < 0.25:
            return ['ref', self.pick_ref()]
        if r < 0.33:
            return ['c', rnd_const(self.rnd, 'n')]
        if r < 0.40 and self.names and 'names' in self.features and self.host_book == NAME_BOOK:
            n = self.rnd.choice(sorted(self.names))
            if self.names[n][0] == 'ref':
                return ['name', n]
        if r < 0.66 and depth > 0:
            op = self.rnd.choice(['+', '-', '*', '+', '&', '=', '<', '/'])
            if op == '&':      # never builds numeric text (that is C12's concern)
                return ['op', op, self.scalar_expr(depth - 1), ['c', V.T('z')]]
            return ['op', op, self.scalar_expr(depth - 1), self.scalar_expr(depth - 1)]
        if r < 0.80:
            f = self.rnd.choice(['SUM', 'SUM', 'COUNT', 'MAX'])
            args = [self.range_arg()]
            if f == 'SUM' and self.rnd.random() < 0.35:
                args.append(self.rnd.choice([['ref', self.pick_ref()],
                                             ['c', rnd_const(self.rnd, 'n')]]))
            return ['fn', f, args]
        if r < 0.90 and depth > 0:
            c = ['op', self.rnd.choice(['<', '=']), ['ref', self.pick_ref()],
                 ['c', rnd_const(self.rnd, 'n')]]
            return ['fn', 'IF', [c, self.scalar_expr(depth - 1), self.scalar_expr(depth - 1)]]
        if r < 0.96 and depth > 0:
            return ['fn', 'IFERROR', [self.scalar_expr(depth - 1), ['c', rnd_const(self.rnd, 'n')]]]
        return ['fn', 'ISERROR', [['ref', self.pick_ref()]]]

    def range_arg(self):
        if 'wholecol' in self.features and self.rnd.random() < 0.12:
            b, s = self.rnd.choice(self.sheets)
            return ['col', b, s, self.rnd.randint(1, self.grid[0])]
        if self.names and 'names' in self.features and self.rnd.random() < 0.2 \
                and self.host_book == NAME_BOOK:
            ns = [n for n in sorted(self.names) if self.names[n][0] == 'rng']
            if ns:
                return ['name', self.rnd.choice(ns)]
        return self.pick_rect()

    # ---- generation ---------------------------------------------------------
    def build(self):
        rnd = self.rnd
        n_const = max(2, self.n_cells // 2)
        for k in range(self.n_cells):
            pos = self.free_pos()
            if pos is None:
                break
            i = cid(*pos)
            if k < n_const or rnd.random() < 0.15:
                self.cells[i] = {'k': 'c', 'v': rnd_const(rnd)}
            elif 'array' in self.features and rnd.random() < 0.2 and self.try_array(pos):
                continue
            else:
                self.host_book = pos[0]
                self.cells[i] = {'k': 'f', 'e': self.scalar_expr(2)}
            self.order.append(i)
            if 'names' in self.features and rnd.random() < 0.3 and len(self.names) < 3:
                nm = ['ALPHA_X', 'BETA_Y', 'GAMMA_Z'][len(self.names)]
                in_book = [x for x in self.order if parse_id(x)[0] == NAME_BOOK]
                if rnd.random() < 0.6 and in_book:
                    self.names[nm] = ['ref', rnd.choice(in_book)]
                else:
                    e = self.pick_rect()
                    e[1], e[2] = NAME_BOOK, rnd.choice([s_ for b_, s_ in self.sheets if b_ == NAME_BOOK])
                    self.names[nm] = e
        return self

    def try_array_literal(self, pos):
        """An array formula whose value is a constant row narrower than (or as
        wide as) its range: the rest is padded with #N/A."""
        b, s, c, r = pos
        h, w = self.rnd.choice([(1, 3), (2, 3), (2, 2), (1, 2)])
        k = self.rnd.randint(1, w)
        if c + w - 1 > self.grid[0] or r + h - 1 > self.grid[1]:
            return False
        ids = [[cid(b, s, c + j, r + i) for j in range(w)] for i in range(h)]
        flat = [x for row in ids for x in row]
        if any(x in self.cells or x in self.reserved for x in flat):
            return False
        arr = {'k': 'a', 'rows': [[norm(self.rnd.choice(NUMS)) for _ in range(k)]]}
        if k == 1:
            arr = arr['rows'][0][0]
        anchor = ids[0][0]
        self.cells[anchor] = {'k': 'af', 'e': ['c', arr], 'r': h, 'c': w,
                              'rect': [b, s, c, r, c + w - 1, r + h - 1]}
        self.order.append(anchor)
        for i in range(h):
            for j in range(w):
                if (i, j) != (0, 0):
                    x = ids[i][j]
                    self.cells[x] = {'k': 'sp', 'anchor': anchor, 'i': i + 1, 'j': j + 1}
                    self.order.append(x)
                self.reserved.add(ids[i][j])
        return True

    def try_array(self, pos):
        if 'array-literal' in self.features and self.rnd.random() < 0.5:
            return self.try_array_literal(pos)
        b, s, c, r = pos
        h, w = self.rnd.choice([(2, 1), (1, 2), (2, 2), (3, 1)])
        if c + w - 1 > self.grid[0] or r + h - 1 > self.grid[1]:
            return False
        ids = [[cid(b, s, c + j, r + i) for j in range(w)] for i in range(h)]
        flat = [x for row in ids for x in row]
        if any(x in self.cells or x in self.reserved for x in flat):
            return False
        # operand: a range of the same shape made of earlier cells / blanks
        for _ in range(30):
            sb, ss = self.rnd.choice(self.sheets)
            c1 = self.rnd.randint(1, self.grid[0] - w + 1)
            r1 = self.rnd.randint(1, self.grid[1] - h + 1)
            src = ['rng', sb, ss, c1, r1, c1 + w - 1, r1 + h - 1]
            sids = [x for row in self.rect_ids(src) for x in row]
            if not (set(sids) & set(flat)) and all(
                    x in self.order or (x not in self.cells and x not in self.reserved)
                    for x in sids):
                break
        else:
            return False
        e = ['op', self.rnd.choice(['*', '+']), src, ['c', norm(V.N(2))]]
        anchor = ids[0][0]
        self.cells[anchor] = {'k': 'af', 'e': e, 'r': h, 'c': w,
                              'rect': [b, s, c, r, c + w - 1, r + h - 1]}
        self.order.append(anchor)
        for i in range(h):
            for j in range(w):
                if (i, j) != (0, 0):
                    x = ids[i][j]
                    self.cells[x] = {'k': 'sp', 'anchor': anchor, 'i': i + 1, 'j': j + 1}
                    self.order.append(x)
                self.reserved.add(ids[i][j])
        return True


# ---------------------------------------------------------------------------
# abstract -> JSON for Workbook.tla
# ---------------------------------------------------------------------------
def tla_expr(g, e):
    k = e[0]
    if k == 'c':
        return ['c', e[1]]
    if k == 'ref':
        return ['ref', e[1]]
    if k in ('rng', 'col'):
        return ['rng', g.rect_ids(e)]
    if k == 'name':
        return ['name', e[1]]
    if k == 'miss':
        return ['miss', e[1]]
    if k == 'op':
        return ['op', e[1], tla_expr(g, e[2]), tla_expr(g, e[3])]
    if k == 'un':
        return ['un', e[1], tla_expr(g, e[2])]
    if k == 'fn':
        return ['fn', e[1], [tla_expr(g, a) for a in e[2]]]
    raise ValueError(e)


def tla_case(g, ov=None):
    cells = {}
    for i, c in g.cells.items():
        if c['k'] == 'c':
            cells[i] = {'k': 'c', 'v': c['v']}
        elif c['k'] == 'f':
            cells[i] = {'k': 'f', 'e': tla_expr(g, c['e'])}
        elif c['k'] == 'af':
            cells[i] = {'k': 'af', 'e': tla_expr(g, c['e']), 'r': c['r'], 'c': c['c']}
        else:
            cells[i] = {'k': 'sp', 'anchor': c['anchor'], 'i': c['i'], 'j': c['j']}
    names = {n: tla_expr(g, e) for n, e in g.names.items()}
    names['_NONE_'] = ['ref', '_NOCELL_']
    ovd = dict(ov or {})
    ovd['_NONE_'] = {'k': 'z'}
    return {'cells': cells, 'names': names, 'ov': ovd}


# ---------------------------------------------------------------------------
# abstract -> formula text
# ---------------------------------------------------------------------------
# set by wbrun.write_xlsx while it writes files whose cross-book references use the
# numeric form [n]Sheet!A1: {host book: {other book: index in the host's link table}}
LINKS = None


def ref_text(host, b, s, ref, qualify):
    """Reference text as written in a formula of cell `host` (book, sheet)."""
    hb, hs = host
    if LINKS and b != hb and s.isascii():
        return '[%d]%s!%s' % (LINKS[hb][b], s, ref)
    if qualify == 'full' or b != hb:
        return "'[%s]%s'!%s" % (b, s, ref)
    if s != hs or qualify == 'sheet':
        if not s.isascii():
            return "'%s'!%s" % (s, ref)
        return '%s!%s' % (s, ref)
    return ref


def expr_text(g, e, host, qualify='min', rnd=None):
    k = e[0]
    if k == 'c':
        v = e[1]
        if v['k'] == 'a':
            return '{%s}' % ';'.join(','.join(V.lit(x) for x in row) for row in v['rows'])
        t = V.lit(v)
        if v['k'] == 'n' and v['n'] < 0:
            t = '(%s)' % t
        return t
    if k == 'ref':
        b, s, c, r = parse_id(e[1])
        ref = a1(c, r)
        if rnd is not None and rnd.random() < 0.3:
            ref = rnd.choice(['$%s$%d' % (COLS[c - 1], r), ref.lower(), '%s$%d' % (COLS[c - 1], r)])
        return ref_text(host, b, s, ref, qualify)
    if k == 'col':
        _, b, s, c = e
        ref = '%s:%s' % (COLS[c - 1], COLS[c - 1])
        if rnd is not None and rnd.random() < 0.3:
            ref = rnd.choice([ref.lower(), '$%s:$%s' % (COLS[c - 1], COLS[c - 1])])
        return ref_text(host, b, s, ref, qualify)
    if k == 'rng':
        _, b, s, c1, r1, c2, r2 = e
        ref = '%s:%s' % (a1(c1, r1), a1(c2, r2))
        if rnd is not None and rnd.random() < 0.3:
            ref = rnd.choice([ref.lower(), '$%s$%d:$%s$%d' % (COLS[c1 - 1], r1, COLS[c2 - 1], r2)])
        return ref_text(host, b, s, ref, qualify)
    if k == 'name':
        if qualify == 'full':
            return "'[%s]'!%s" % (name_text(g, g.names[e[1]])[0], e[1])
        return e[1] if rnd is None or rnd.random() < 0.7 else e[1].lower()
    if k == 'miss':
        return e[2]
    if k == 'op':
        return '(%s%s%s)' % (expr_text(g, e[2], host, qualify, rnd), e[1],
                             expr_text(g, e[3], host, qualify, rnd))
    if k == 'un':
        return '(-%s)' % expr_text(g, e[2], host, qualify, rnd)
    if k == 'fn':
        return '%s(%s)' % (e[1], ','.join(expr_text(g, a, host, qualify, rnd) for a in e[2]))
    raise ValueError(e)


def name_text(g, e):
    """Defined-name target text (always sheet-qualified, absolute)."""
    if e[0] == 'ref':
        b, s, c, r = parse_id(e[1])
        return b, "%s!$%s$%d" % (s, COLS[c - 1], r), "'[%s]%s'!%s" % (b, s, a1(c, r))
    _, b, s, c1, r1, c2, r2 = e
    return b, "%s!$%s$%d:$%s$%d" % (s, COLS[c1 - 1], r1, COLS[c2 - 1], r2), \
        "'[%s]%s'!%s:%s" % (b, s, a1(c1, r1), a1(c2, r2))


def cell_python_value(v):
    """openpyxl / from_dict value of a constant."""
    k = v['k']
    if k == 'e':
        return V.ERR2TXT[v['e']]
    return V.pyval(v)


def expr_ids(g, e):
    k = e[0]
    if k in ('c', 'miss'):
        return set()
    if k == 'ref':
        return {e[1]}
    if k in ('rng', 'col'):
        return {x for row in g.rect_ids(e) for x in row}
    if k == 'name':
        return expr_ids(g, g.names[e[1]])
    if k == 'op':
        return expr_ids(g, e[2]) | expr_ids(g, e[3])
    if k == 'un':
        return expr_ids(g, e[2])
    if k == 'fn':
        out = set()
        for a in e[2]:
            out |= expr_ids(g, a)
        return out
    raise ValueError(e)


def deps(g, i):
    c = g.cells[i]
    if c['k'] == 'c':
        return set()
    if c['k'] == 'sp':
        return {c['anchor']}
    return {d for d in expr_ids(g, c['e']) if d in g.cells}


def is_acyclic(g):
    state = {}

    def visit(i):
        if state.get(i) == 1:
            return False
        if state.get(i) == 2:
            return True
        state[i] = 1
        for d in deps(g, i):
            if not visit(d):
                return False
        state[i] = 2
        return True
    return all(visit(i) for i in g.cells)


def make(seed, **kw):
    """Deterministic acyclic workbook for a seed.  case_titles=True: one workbook in
    four has sheet titles whose case mappings are not mirror images (LAYOUT_CASE) and one
    in four the same sheet title in two books (LAYOUT_SAME)."""
    kw = dict(kw)
    if 'wholecol' in kw.get('features', ()) and seed % 2 == 0:
        return make_wholecol(seed)
    if kw.pop('overlaps', False) and seed % 5 == 2:
        return make_overlap(seed)
    if kw.pop('blockranges', False) and seed % 5 == 4:
        return make_blockrange(seed)
    if kw.pop('dense', False) and seed % 5 == 3:
        return make_dense(seed)
    if kw.pop('twoblocks', False) and seed % 7 == 5:
        return make_twoblocks(seed)
    if kw.pop('sparseinput', False) and seed % 11 == 6:
        return make_sparseinput(seed)
    if kw.pop('case_titles', False) and 'sheets' not in kw:
        if seed % 4 == 3:
            kw['sheets'] = LAYOUT_CASE
        elif seed % 4 == 1:
            kw['sheets'] = LAYOUT_SAME      # one sheet title in two books
    k = 0
    while True:
        g = Gen(random.Random(seed * 1000003 + k), **kw).build()
        if is_acyclic(g):
            g.seed = seed
            _settle_blank_branches(g)
            return g
        k += 1


def _settle_blank_branches(g):
    """What an operator makes of a *blank* handed back by IF / IFERROR (Excel keeps it a
    blank, the library makes it 0 - `=IF(TRUE,A1)&"z"`) is settled by no property: inside
    another expression a branch that is a bare reference to an unpopulated cell is
    replaced by a constant.  Workbooks without that pattern are left as generated."""
    def blank_ref(e):
        if e[0] == 'ref':
            return e[1] not in g.cells
        if e[0] == 'name' and g.names[e[1]][0] == 'ref':
            return g.names[e[1]][1] not in g.cells
        return False

    def fix(e, nested):
        k = e[0]
        if k == 'op':
            fix(e[2], True)
            fix(e[3], True)
        elif k == 'un':
            fix(e[2], True)
        elif k == 'fn':
            args = e[2]
            if nested and e[1] in ('IF', 'IFERROR'):
                for j in ((1, 2) if e[1] == 'IF' else (0,)):
                    if j < len(args) and blank_ref(args[j]):
                        args[j] = ['c', V.N(1)]
            for a in args:
                fix(a, True)
    for c in g.cells.values():
        if 'e' in c:
            fix(c['e'], False)


def needed_from(g, roots):
    """Cells transitively needed by the given cells (including themselves)."""
    seen, stack = set(), list(roots)
    while stack:
        i = stack.pop()
        if i in seen or i not in g.cells:
            continue
        seen.add(i)
        stack.extend(deps(g, i))
        c = g.cells[i]
        if c['k'] == 'sp':
            stack.append(c['anchor'])
    return seen


def make_overlap(seed):
    """Two referenced ranges that share one unpopulated cell: the smaller one has another
    unpopulated cell too, the larger one only the shared one (so the shared cell has a node
    of its own).  g.directed lists the input lists worth trying: the shared cell, the
    other blank, a populated cell."""
    rnd = random.Random(seed * 57 + 9)
    g = Gen(rnd, sheets=LAYOUT[:1], features=())
    b, s = LAYOUT[0]
    vert = rnd.random() < 0.5

    def at(k, other=1):          # k-th cell along the line, `other` across it
        return cid(b, s, other, k) if vert else cid(b, s, k, other)

    def rect(k1, k2, o1=1, o2=1):
        return ['rng', b, s, o1, k1, o2, k2] if vert else ['rng', b, s, k1, o1, k2, o2]
    # line: 1 = number, 2 = blank, 3 = blank (shared), 4 = number; second line all numbers
    for k in (1, 4):
        g.cells[at(k)] = {'k': 'c', 'v': norm(rnd.choice(NUMS))}
        g.order.append(at(k))
    for k in (3, 4):
        g.cells[at(k, 2)] = {'k': 'c', 'v': norm(rnd.choice(NUMS))}
        g.order.append(at(k, 2))
    f1, f2 = at(1, 4), at(2, 4)
    fn1, fn2 = rnd.choice(['SUM', 'COUNT', 'MAX']), rnd.choice(['SUM', 'SUM', 'MAX'])
    g.cells[f1] = {'k': 'f', 'e': ['fn', fn1, [rect(1, 3)]]}                 # 3 cells, 2 blanks
    g.cells[f2] = {'k': 'f', 'e': ['fn', fn2, [rect(3, 4, 1, 2)]]}           # 4 cells, 1 blank
    g.order += [f1, f2]
    g.directed = [[at(3)], [at(2)], [at(3), at(1)], [at(4)]]
    g.seed = seed
    return g


def make_dense(seed):
    """A fully populated range that does not depend on the cells named as inputs (it is
    pre-computed when a function is compiled) next to formulas that combine it with an
    input cell: g.directed names the inputs worth trying."""
    rnd = random.Random(seed * 71 + 7)
    g = Gen(rnd, sheets=LAYOUT[:1], features=())
    b, s = LAYOUT[0]
    vert = rnd.random() < 0.5
    n = rnd.randint(2, 3)
    line = [cid(b, s, 1, k) if vert else cid(b, s, k, 1) for k in range(1, n + 1)]
    for i in line:
        g.cells[i] = {'k': 'c', 'v': norm(rnd.choice(NUMS))}
        g.order.append(i)
    rect = ['rng', b, s, 1, 1, 1, n] if vert else ['rng', b, s, 1, 1, n, 1]
    in1, in2 = cid(b, s, 4, 4), cid(b, s, 4, 5)
    for i in (in1, in2):
        g.cells[i] = {'k': 'c', 'v': norm(rnd.choice(NUMS))}
        g.order.append(i)
    f1, f2, f3 = cid(b, s, 5, 1), cid(b, s, 5, 2), cid(b, s, 5, 3)
    g.cells[f1] = {'k': 'f', 'e': ['op', rnd.choice(['*', '+']), ['fn', 'SUM', [rect]], ['ref', in1]]}
    g.cells[f2] = {'k': 'f', 'e': ['op', '+', ['fn', rnd.choice(['MAX', 'SUM', 'COUNT']), [rect]], ['ref', in2]]}
    g.cells[f3] = {'k': 'f', 'e': ['op', '+', ['ref', f1], ['ref', f2]]}
    g.order += [f1, f2, f3]
    g.directed = [[in1], [in2], [in1, in2]]
    g.seed = seed
    return g


def make_sparseinput(seed):
    """A sparse range (two or more blanks, some stored cells) that is worth supplying as a
    whole (g.directed_ranges), read through the range and - its stored cells - directly."""
    rnd = random.Random(seed * 79 + 13)
    g = Gen(rnd, sheets=LAYOUT[:1], features=())
    b, s = LAYOUT[0]
    vert = rnd.random() < 0.5
    stored = sorted(rnd.sample(range(1, 6), rnd.randint(1, 3)))
    line = {k: (cid(b, s, 1, k) if vert else cid(b, s, k, 1)) for k in range(1, 6)}
    for k in stored:
        g.cells[line[k]] = {'k': 'c', 'v': norm(rnd.choice(NUMS))}
        g.order.append(line[k])
    rect = ['rng', b, s, 1, 1, 1, 5] if vert else ['rng', b, s, 1, 1, 5, 1]
    f1, f2, f3 = cid(b, s, 7, 7), cid(b, s, 7, 8), cid(b, s, 7, 9)
    g.cells[f1] = {'k': 'f', 'e': ['fn', rnd.choice(['SUM', 'MAX', 'COUNT']), [rect]]}
    g.cells[f2] = {'k': 'f', 'e': ['op', '*', ['ref', line[stored[-1]]], ['c', norm(V.N(2))]]}
    g.cells[f3] = {'k': 'f', 'e': ['op', '+', ['ref', f1], ['ref', f2]]}
    g.order += [f1, f2, f3]
    g.directed_ranges = [rect]
    g.seed = seed
    return g


def make_twoblocks(seed):
    """Two array-formula blocks on one sheet with plain constants (and a blank) in the gap
    between them - inside the bounding box of the two blocks, inside neither."""
    rnd = random.Random(seed * 73 + 11)
    g = Gen(rnd, sheets=LAYOUT[:1], features=())
    b, s = LAYOUT[0]
    vert = rnd.random() < 0.5            # blocks are columns side by side, or rows one above the other

    def at(line, k):                     # line 1..5 across the blocks, k 1..2 along them
        return cid(b, s, line, k) if vert else cid(b, s, k, line)

    def rect(l1, k1, l2, k2):
        return ['rng', b, s, l1, k1, l2, k2] if vert else ['rng', b, s, k1, l1, k2, l2]
    for k in (1, 2):
        g.cells[at(1, k)] = {'k': 'c', 'v': norm(rnd.choice(NUMS))}
        g.order.append(at(1, k))
    for line, op in ((2, '*'), (4, '+')):
        anchor, sp = at(line, 1), at(line, 2)
        g.cells[anchor] = {'k': 'af', 'e': ['op', op, rect(1, 1, 1, 2), ['c', norm(V.N(2))]],
                           'r': 2 if vert else 1, 'c': 1 if vert else 2,
                           'rect': [b, s] + (rect(line, 1, line, 2)[3:])}
        g.cells[sp] = {'k': 'sp', 'anchor': anchor, 'i': 2 if vert else 1, 'j': 1 if vert else 2}
        g.order += [anchor, sp]
        g.reserved |= {anchor, sp}
    gap1 = at(3, 1)                      # a constant in the gap; at(3, 2) stays blank or constant
    g.cells[gap1] = {'k': 'c', 'v': norm(rnd.choice(NUMS))}
    g.order.append(gap1)
    if rnd.random() < 0.6:
        g.cells[at(3, 2)] = {'k': 'c', 'v': norm(rnd.choice(NUMS))}
        g.order.append(at(3, 2))
    f1, f2, f3 = at(5, 1), at(5, 2), at(5, 3)
    g.cells[f1] = {'k': 'f', 'e': ['fn', 'SUM', [rect(3, 1, 3, 2)]]}
    g.cells[f2] = {'k': 'f', 'e': ['op', '+', ['ref', gap1], ['op', '+', ['ref', at(2, 2)], ['ref', at(4, 2)]]]}
    g.cells[f3] = {'k': 'f', 'e': ['fn', rnd.choice(['COUNT', 'SUM', 'MAX']), [rect(1, 1, 4, 2)]]}
    g.order += [f1, f2, f3]
    g.seed = seed
    return g


def make_blockrange(seed):
    """An array-formula block that lies wholly inside a larger referenced range (also
    reachable through a defined name): g.directed_ranges names that range as worth
    supplying values through."""
    rnd = random.Random(seed * 67 + 3)
    g = Gen(rnd, sheets=LAYOUT[:1], features=('names',))
    b, s = LAYOUT[0]
    for r in (1, 2):
        g.cells[cid(b, s, 1, r)] = {'k': 'c', 'v': norm(rnd.choice(NUMS))}
        g.order.append(cid(b, s, 1, r))
    anchor = cid(b, s, 2, 1)                                   # {B1:B2 = A1:A2 * 2}
    g.cells[anchor] = {'k': 'af', 'e': ['op', rnd.choice(['*', '+']), ['rng', b, s, 1, 1, 1, 2], ['c', norm(V.N(2))]],
                       'r': 2, 'c': 1, 'rect': [b, s, 2, 1, 2, 2]}
    sp = cid(b, s, 2, 2)
    g.cells[sp] = {'k': 'sp', 'anchor': anchor, 'i': 2, 'j': 1}
    g.order += [anchor, sp]
    g.reserved |= {anchor, sp}
    for r in (1, 2):
        g.cells[cid(b, s, 3, r)] = {'k': 'c', 'v': norm(rnd.choice(NUMS))}
        g.order.append(cid(b, s, 3, r))
    big = ['rng', b, s, 2, 1, 3, 2]                             # B1:C2 holds the block and C1:C2
    fcells = {cid(b, s, 4, 1): ['fn', rnd.choice(['SUM', 'MAX']), [big]],
              cid(b, s, 4, 2): ['op', '+', ['ref', sp], ['c', norm(V.N(1))]],
              cid(b, s, 4, 3): ['fn', 'SUM', [['rng', b, s, 2, 1, 2, 2]]]}
    for i, e in fcells.items():
        g.cells[i] = {'k': 'f', 'e': e}
        g.order.append(i)
    if rnd.random() < 0.5:
        g.names['ALPHA_X'] = list(big)
    g.directed_ranges = [big]
    g.seed = seed
    return g


def make_wholecol(seed):
    """A column with one blank cell that has a node of its own (referred to directly, or the
    only blank of a referenced range) and populated cells around it, read through a
    whole-column reference."""
    rnd = random.Random(seed * 61 + 5)
    g = Gen(rnd, sheets=LAYOUT[:1], features=())
    b, s = LAYOUT[0]
    if seed % 3 == 1:
        # the column holds a complete array-formula block {B_top:B_top+1 = A1:A2 * 2} with a
        # populated cell directly below it (and possibly a blank row above)
        top = rnd.randint(1, 2)
        for r in (1, 2):
            g.cells[cid(b, s, 1, r)] = {'k': 'c', 'v': norm(rnd.choice(NUMS))}
            g.order.append(cid(b, s, 1, r))
        anchor, sp = cid(b, s, 2, top), cid(b, s, 2, top + 1)
        g.cells[anchor] = {'k': 'af', 'e': ['op', rnd.choice(['*', '+']), ['rng', b, s, 1, 1, 1, 2], ['c', norm(V.N(2))]],
                           'r': 2, 'c': 1, 'rect': [b, s, 2, top, 2, top + 1]}
        g.cells[sp] = {'k': 'sp', 'anchor': anchor, 'i': 2, 'j': 1}
        g.order += [anchor, sp]
        g.reserved |= {anchor, sp}
        below = cid(b, s, 2, top + 2)
        g.cells[below] = {'k': 'c', 'v': norm(V.N(100))}
        g.order.append(below)
        fns = rnd.sample(['SUM', 'COUNT', 'MAX', 'MIN'], 2)
        g.cells[cid(b, s, 4, 1)] = {'k': 'f', 'e': ['fn', fns[0], [['col', b, s, 2]]]}
        g.cells[cid(b, s, 4, 2)] = {'k': 'f', 'e': ['fn', fns[1], [['col', b, s, 2]]]}
        g.cells[cid(b, s, 4, 3)] = {'k': 'f', 'e': ['op', '+', ['ref', cid(b, s, 4, 1)], ['ref', sp]]}
        g.order += [cid(b, s, 4, 1), cid(b, s, 4, 2), cid(b, s, 4, 3)]
        g.seed = seed
        return g
    col = rnd.randint(1, 2)
    blank = rnd.randint(1, 3)                       # rows 1..4, something populated below it
    for r in range(1, 5):
        if r != blank:
            g.cells[cid(b, s, col, r)] = {'k': 'c', 'v': norm(rnd.choice(NUMS))}
            g.order.append(cid(b, s, col, r))
    out = 3
    fn = rnd.choice(['SUM', 'SUM', 'MAX', 'COUNT'])
    g.cells[cid(b, s, out, 1)] = {'k': 'f', 'e': ['fn', fn, [['col', b, s, col]]]}
    if rnd.random() < 0.5:
        g.cells[cid(b, s, out, 2)] = {'k': 'f', 'e': ['ref', cid(b, s, col, blank)]}
    else:
        lo, hi = max(1, blank - 1), min(4, blank + 1)
        g.cells[cid(b, s, out, 2)] = {'k': 'f', 'e': ['fn', 'SUM', [['rng', b, s, col, lo, col, hi]]]}
    g.cells[cid(b, s, out, 3)] = {'k': 'f', 'e': ['op', '+', ['ref', cid(b, s, out, 1)], ['c', norm(V.N(1))]]}
    g.order += [cid(b, s, out, 1), cid(b, s, out, 2), cid(b, s, out, 3)]
    g.seed = seed
    return g


def make_ring(seed):
    """A ring of 2-3 guarded cells: B_i = IF(A_i, B_next, i) or IFERROR(x_i, B_next), the
    guards set independently - a cycle that can be cut at several guards whose states
    differ (one seed in five of make_cyclic)."""
    rnd = random.Random(seed * 31 + 1)
    g = Gen(rnd, sheets=LAYOUT[:1], features=())
    b, s = LAYOUT[0]
    if rnd.random() < 0.35:
        # a fan: ONE cell closes two different cycles through two guarded references
        #   B1 = IF(A1, C1, 1) + IF(A2, D1, 2),  C1 = B1,  D1 = B1 * 2
        g1, g2 = rnd.random() < 0.5, rnd.random() < 0.5
        for i, gv in enumerate((g1, g2)):
            gid = cid(b, s, 1, i + 1)
            g.cells[gid] = {'k': 'c', 'v': V.B(gv)}
            g.order.append(gid)
        hub, c1, d1 = cid(b, s, 2, 1), cid(b, s, 3, 1), cid(b, s, 4, 1)
        g.cells[hub] = {'k': 'f', 'e': ['op', '+',
                                        ['fn', 'IF', [['ref', cid(b, s, 1, 1)], ['ref', c1], ['c', norm(V.N(1))]]],
                                        ['fn', 'IF', [['ref', cid(b, s, 1, 2)], ['ref', d1], ['c', norm(V.N(2))]]]]}
        g.cells[c1] = {'k': 'f', 'e': ['ref', hub]}
        g.cells[d1] = {'k': 'f', 'e': ['op', '*', ['ref', hub], ['c', norm(V.N(2))]]}
        g.order += [hub, c1, d1]
        g.seed = seed
        return g
    k = rnd.choice([2, 2, 3])
    guards = [rnd.random() < 0.5 for _ in range(k)]
    for i in range(k):
        gid = cid(b, s, 1, i + 1)
        g.cells[gid] = {'k': 'c', 'v': V.B(guards[i])}
        g.order.append(gid)
    ring = [cid(b, s, 2, i + 1) for i in range(k)]
    for i in range(k):
        nxt = ring[(i + 1) % k]
        if rnd.random() < 0.7:
            e = ['fn', 'IF', [['ref', cid(b, s, 1, i + 1)], ['ref', nxt], ['c', norm(V.N(i + 1))]]]
        else:
            first = ['c', V.E('NA')] if guards[i] else ['c', norm(V.N(i + 1))]
            e = ['fn', 'IFERROR', [first, ['ref', nxt]]]
        g.cells[ring[i]] = {'k': 'f', 'e': e}
        g.order.append(ring[i])
    tot = cid(b, s, 4, 1)
    g.cells[tot] = {'k': 'f', 'e': ['op', '+', ['ref', ring[0]], ['ref', ring[1]]]}
    g.order.append(tot)
    g.seed = seed
    return g


def make_cyclic(seed, n_cells=8):
    """An acyclic workbook with 1-3 back references injected: unguarded, behind
    an IF guard (selected or not), behind IFERROR's fallback, through a range
    or through a name; one seed in five is a ring of guarded cells (make_ring)."""
    if seed % 5 == 0:
        return make_ring(seed)
    g = make(seed, n_cells=n_cells, features=['names'])
    rnd = random.Random(seed * 7919 + 13)
    forms = [i for i in g.order if g.cells[i]['k'] == 'f']
    if not forms:
        return g
    consts = [i for i in g.order if g.cells[i]['k'] == 'c' and g.cells[i]['v']['k'] == 'n']
    for _ in range(rnd.randint(1, 3)):
        src = rnd.choice(forms)
        k = g.order.index(src)
        later = [i for i in g.order[k:] if g.cells[i]['k'] == 'f']   # itself or a later formula
        tgt = rnd.choice(later)
        orig = g.cells[src]['e']
        r = rnd.random()
        back = ['ref', tgt]
        if r < 0.15:
            b, s, c, row = parse_id(tgt)
            back = ['fn', 'SUM', [['rng', b, s, c, row, c, min(g.grid[1], row + 1)]]]
        elif r < 0.25 and parse_id(tgt)[0] == NAME_BOOK and parse_id(src)[0] == NAME_BOOK \
                and len(g.names) < 3:
            nm = ['ALPHA_X', 'BETA_Y', 'GAMMA_Z'][len(g.names)]
            g.names[nm] = ['ref', tgt]
            back = ['name', nm]
        q = rnd.random()
        if q < 0.4 or not consts:
            e = ['op', '+', orig, back]
        elif q < 0.8:
            guard = ['op', '<', ['ref', rnd.choice(consts)], ['c', norm(V.N(rnd.choice([0, 2, 4, 100])))]]
            e = ['fn', 'IF', [guard, orig, back]] if rnd.random() < 0.5 else \
                ['fn', 'IF', [guard, back, orig]]
        else:
            e = ['fn', 'IFERROR', [orig, back]]
        g.cells[src] = {'k': 'f', 'e': e}
    return g
