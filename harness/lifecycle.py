"""Replay of life-cycle histories (behaviours of Lifecycle.tla) on real models.

Used by C07 (overrides, no trace left), C08 (compiled functions), C16 (write),
C17 (copies).  The expected observation of every calculation is
Workbook!Sem(W, ov) computed by TLC.
"""
import copy
import random
import shutil
import tempfile
from . import impl
from . import values as V
from . import wbgen as G
from . import wbrun as R


# ---------------------------------------------------------------------------
# abstract override sets
# ---------------------------------------------------------------------------
def referenced_rects(g):
    out = []

    def walk(e):
        if e[0] == 'rng':
            out.append(e)
        elif e[0] == 'op':
            walk(e[2]); walk(e[3])
        elif e[0] == 'un':
            walk(e[2])
        elif e[0] == 'fn':
            for a in e[2]:
                walk(a)
    for c in g.cells.values():
        if 'e' in c:
            walk(c['e'])
    return out


def has_own_node(g, i):
    """An unpopulated cell gets a data node of its own when a formula (or a name) refers
    to it directly, or when it is the only unpopulated cell of a referenced range (the
    library keeps one missing cell per range as a node and assembles ranges with more
    through the SELF look-up)."""
    single = set()

    def walk(e):
        if e[0] == 'ref':
            single.add(e[1])
        elif e[0] == 'op':
            walk(e[2]); walk(e[3])
        elif e[0] == 'un':
            walk(e[2])
        elif e[0] == 'fn':
            for a in e[2]:
                walk(a)
    for c in g.cells.values():
        if 'e' in c:
            walk(c['e'])
    for e in g.names.values():
        if e[0] == 'ref':
            single.add(e[1])
    if i in single:
        return True
    rects = referenced_rects(g) + [e for e in g.names.values() if e[0] == 'rng']
    for e in rects:
        ids = [x for row in g.rect_ids(e) for x in row]
        missing = [x for x in ids if x not in g.cells]
        if missing == [i]:
            return True
    return False


def whole_blocks_inside(g, e):
    """Every array-formula block that rectangle e touches lies wholly inside it."""
    inside = {x for row in g.rect_ids(e) for x in row}
    for i, c in g.cells.items():
        if c['k'] == 'af':
            blk = {x for row in g.rect_ids(['rng'] + list(c['rect'])) for x in row}
            if blk & inside and not blk <= inside:
                return False
    return True


def make_ovsets(g, rnd, n=3):
    """n abstract override sets {id: value} (+ how each may be supplied)."""
    consts = [i for i, c in g.cells.items() if c['k'] == 'c']
    forms = [i for i, c in g.cells.items() if c['k'] == 'f']
    rects = referenced_rects(g)
    blanks = sorted({x for e in rects for row in g.rect_ids(e) for x in row
                     if x not in g.cells and x not in g.reserved})
    sets = []
    for k in range(n):
        ov = {}
        style = 'cells'
        r = rnd.random()
        if k == 0 and getattr(g, 'directed_ranges', None):
            e = g.directed_ranges[0]
            for row in g.rect_ids(e):
                for x in row:
                    ov[x] = G.rnd_const(rnd, 'n')
            sets.append({'ov': ov, 'style': ('range', e)})
            continue
        small = [e for e in rects if 1 < len([x for row in g.rect_ids(e) for x in row]) <= 4
                 and not any(x in g.reserved for row in g.rect_ids(e) for x in row)]
        # rectangles that hold whole array-formula blocks (every block they touch lies
        # inside them): a value supplied through the range replaces the block
        blocks = [e for e in rects if 1 < len([x for row in g.rect_ids(e) for x in row]) <= 9
                  and any(x in g.reserved for row in g.rect_ids(e) for x in row)
                  and whole_blocks_inside(g, e)]
        if blocks and r >= 0.2 and r < 0.45:
            e = rnd.choice(blocks)
            for row in g.rect_ids(e):
                for x in row:
                    ov[x] = G.rnd_const(rnd, 'n')
            sets.append({'ov': ov, 'style': ('range', e)})
            continue
        if r < 0.2 and small:
            e = rnd.choice(small)
            for row in g.rect_ids(e):
                for x in row:
                    ov[x] = G.rnd_const(rnd, 'n')
            style = ('range', e)
        else:
            for _ in range(rnd.randint(1, 3)):
                q = rnd.random()
                pool = consts if q < 0.6 or not (forms or blanks) else \
                    (forms if q < 0.8 and forms else (blanks or consts))
                if not pool:
                    continue
                ov[rnd.choice(pool)] = G.rnd_const(rnd, 'ntbe' if rnd.random() < 0.3 else 'n')
        sets.append({'ov': ov, 'style': style})
    return sets


def concretise(g, ovset, use_names=False):
    """inputs dict for ExcelModel.calculate()."""
    ov, style = ovset['ov'], ovset['style']
    if isinstance(style, (tuple, list)) and style[0] == 'range':
        e = style[1]
        rows = [[V.pyval(ov[x]) for x in row] for row in g.rect_ids(e)]
        return {G.rect_node_name(*e[1:]): rows}
    out = {}
    targets = {}
    if use_names:
        for n, e in g.names.items():
            if e[0] == 'ref':
                targets[e[1]] = "'[%s]'!%s" % (G.name_text(g, e)[0], n)
    for i, v in ov.items():
        key = targets.get(i) or G.node_name(i)
        out[key] = V.pyval(v)
    return out


def ov_json(ovset):
    return dict(ovset['ov'])


# ---------------------------------------------------------------------------
# history executor
# ---------------------------------------------------------------------------
def out_cells(g):
    """The cells asked for when an operation restricts its outputs."""
    forms = [i for i in g.order if g.cells[i]['k'] == 'f']
    return forms[-2:] if forms else []


class Exec:
    def __init__(self, g, path, ovsets, sem, wdir=None):
        """sem[j] = expected valuation {id: value} under override set j
        (j = 0: no override)."""
        self.g, self.path, self.ovsets, self.sem = g, path, ovsets, sem
        self.wdir = wdir
        self.objs = {}
        self.problems = []
        self.observations = 0
        self.tmp = None

    def build(self):
        if self.path == 'dict':
            m = R.build_dict(self.g)
        else:
            self.tmp = tempfile.mkdtemp(prefix='verif-lc-')
            m = R.build_files(self.g, self.tmp)
        self.objs['m'] = m

    def close(self):
        if self.tmp:
            shutil.rmtree(self.tmp, ignore_errors=True)

    def inputs_of(self, j, use_names=False):
        if j == 0:
            return {}
        return concretise(self.g, self.ovsets[j - 1], use_names)

    def compare(self, step, op, sol, j, cells, what):
        exp = self.sem[j]
        for i in cells:
            if i not in exp:
                continue
            o = R.node_value(sol, self.g, i)
            self.observations += 1
            if o is None or not V.matches(exp[i], o):
                self.problems.append({
                    'kind': what, 'step': step, 'op': op, 'cell': i,
                    'expected': V.show(exp[i]), 'observed': V.show(o) if o else None})

    def probe(self, step, op, j):
        """Observe every live object with override set j."""
        for name, m in list(self.objs.items()):
            kw = {}
            inp = self.inputs_of(j)
            if inp:
                kw['inputs'] = inp
            try:
                sol = m.calculate(**kw)
                self.compare(step, dict(op, probe=name, pj=j), sol, j, list(self.g.cells), 'probe')
            except BaseException as ex:  # noqa
                if isinstance(ex, (KeyboardInterrupt, SystemExit)):
                    raise
                self.problems.append({'kind': 'probe-raises', 'step': step,
                                      'op': dict(op, probe=name, pj=j),
                                      'exc': type(ex).__name__, 'msg': str(ex)[:200]})

    def run(self, hist, use_names=False, observe_ops=('calc', 'fcall'), probe_j=None):
        g = self.g
        for step, op in enumerate(hist, 1):
            if probe_j is not None and step > 1:
                self.probe(step - 1, hist[step - 2], probe_j)
            m = self.objs.get(op.get('o', 'm'))
            if m is None:
                continue
            k = op['k']
            try:
                if k == 'calc':
                    inp = self.inputs_of(op['j'], use_names)
                    outs = out_cells(g) if op.get('outs') else None
                    kw = {}
                    if inp:
                        kw['inputs'] = inp
                    if outs:
                        kw['outputs'] = [G.node_name(i) for i in outs]
                    sol = m.calculate(**kw)
                    if 'calc' in observe_ops:
                        ovk = set(self.ovsets[op['j'] - 1]['ov']) if op['j'] else set()
                        cells = outs if outs else [i for i in g.cells]
                        self.compare(step, op, sol, op['j'], cells, 'calc')
                elif k == 'fcall':
                    if 'fcall' in observe_ops:
                        self.fcall(step, op, m)
                    else:
                        self.fcall(step, op, m, check=False)
                elif k == 'compile':
                    outs = out_cells(g)
                    ins = [i for i, c in g.cells.items() if c['k'] == 'c'][:2]
                    if outs and ins:
                        m.compile(inputs=[G.node_name(i) for i in ins],
                                  outputs=[G.node_name(i) for i in outs])
                elif k == 'todict':
                    m.to_dict()
                elif k == 'write':
                    m.write(solution=m.calculate())
                elif k == 'copy':
                    self.objs['copy'] = copy.deepcopy(m)
                elif k == 'dill':
                    import dill
                    self.objs['copy'] = dill.loads(dill.dumps(m))
                elif k == 'refinish':
                    pass
                elif k == 'fcopy':
                    self.fcopy(step, op, m)
            except BaseException as ex:  # noqa
                if isinstance(ex, (KeyboardInterrupt, SystemExit)):
                    raise
                if k not in observe_ops:
                    continue        # only a preceding operation: its own failure is judged elsewhere
                inner = getattr(ex, 'ex', None)
                self.problems.append({
                    'kind': 'raises', 'step': step, 'op': op,
                    'exc': type(ex).__name__ + ('/' + type(inner).__name__ if inner else ''),
                    'msg': str(ex)[:200]})
        return self.problems

    def fcopy(self, step, op, m):
        """A compiled function, its deep copy and its dill round trip agree with
        Sem(W, ov_j) - also after the original has been called with other
        arguments."""
        import dill
        g = self.g
        j = op['j'] or 1
        ovset = self.ovsets[j - 1]
        if ovset['style'] != 'cells':
            return
        outs = out_cells(g)
        ids = list(ovset['ov'])
        if not outs or set(ids) & set(outs) or any(i not in g.cells for i in ids):
            return
        keys = [G.node_name(i) for i in ids]
        func = m.compile(inputs=keys, outputs=[G.node_name(i) for i in outs])
        f2 = copy.deepcopy(func)
        f3 = dill.loads(dill.dumps(func))
        other = [V.pyval(G.rnd_const(random.Random(step), 'n')) for _ in ids]
        func(*other)                      # mutate the original's last solution
        args = [V.pyval(ovset['ov'][i]) for i in ids]
        exp = self.sem[j]
        for label, fn in (('deepcopy', f2), ('dill', f3), ('original', func)):
            res = fn(*args)
            if len(outs) == 1:
                res = [res]
            for i, v in zip(outs, res):
                v = v.value if hasattr(v, 'ranges') else v
                o = V.alpha(R._first(v))
                self.observations += 1
                if i in exp and not V.matches(exp[i], o):
                    self.problems.append({'kind': 'function-copy', 'step': step,
                                          'op': dict(op, which=label), 'cell': i,
                                          'expected': V.show(exp[i]), 'observed': V.show(o)})

    def fcall(self, step, op, m, check=True):
        """Compile a function for override set j's inputs and the output cells,
        call it with the supplied values, compare with Sem(W, ov_j)."""
        g = self.g
        j = op['j']
        if j == 0:
            return
        ovset = self.ovsets[j - 1]
        if ovset['style'] != 'cells':
            inp = concretise(g, ovset)
        else:
            inp = {G.node_name(i): V.pyval(v) for i, v in ovset['ov'].items()}
        outs = out_cells(g)
        if not outs:
            return
        keys = list(inp)
        func = m.compile(inputs=keys, outputs=[G.node_name(i) for i in outs])
        res = func(*[inp[k] for k in keys])
        if not check:
            return
        if len(outs) == 1:
            res = [res]
        exp = self.sem[j]
        for i, v in zip(outs, res):
            v = v.value if hasattr(v, 'ranges') else v
            o = V.alpha(R._first(v))
            self.observations += 1
            if i in exp and not V.matches(exp[i], o):
                self.problems.append({
                    'kind': 'compiled', 'step': step, 'op': op, 'cell': i,
                    'inputs': keys, 'expected': V.show(exp[i]), 'observed': V.show(o)})


def name_override_hazard(g, ovset):
    """A value supplied through a defined name whose cell holds a formula (an
    error constant is stored as one)."""
    tg = {e[1] for e in g.names.values() if e[0] == 'ref'}
    for i in ovset['ov']:
        c = g.cells.get(i)
        if i in tg and c is not None and (c['k'] != 'c' or c['v']['k'] == 'e'):
            return True
    return False


def range_override_hazard(g, ovset):
    """A whole-range override whose members are not all plain constants: an
    unpopulated member or a member that is a formula (an error constant is
    one) - the known weak spot of range distribution."""
    st = ovset['style']
    if not (isinstance(st, (tuple, list)) and st[0] == 'range'):
        return False
    for i in ovset['ov']:
        c = g.cells.get(i)
        if c is not None and c['k'] in ('af', 'sp') and whole_blocks_inside(g, st[1]):
            continue        # a whole array-formula block inside the range is replaced by it
        if c is None or c['k'] != 'c' or c['v']['k'] == 'e':
            return True
    return False
