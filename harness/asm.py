"""Binding of Assemble.tla to the real ExcelModel.assemble() / RangesAssembler.

A layout (populated cells, array-formula blocks, requested rectangles on one 2 x 3
sheet) is built as a dictionary model; after from_dict() the RangesAssembler objects
of the dispatcher are read back as the abstract state of the specification
(missing / cellIn / blockIn / phIn / self / outCells / outBlocks per requested
rectangle, plus the set of blank nodes) and must equal one of the final states TLC
reached for that layout (the order of add() among assemblers with equally many
missing cells is the only freedom).  Then the model is calculated and every
requested rectangle is read position by position.
"""
import json
from . import impl

Q = "'[B1.XLSX]S1'!"
COLS = 'ABCDEFGH'


def a1(p):
    return '%s%d' % (COLS[p[0] - 1], p[1])


def rect_name(r):
    c1, r1, c2, r2 = r
    if (c1, r1) == (c2, r2):
        return a1((c1, r1))
    return '%s:%s' % (a1((c1, r1)), a1((c2, r2)))


def cells_of(r):
    c1, r1, c2, r2 = r
    return [(c, q) for q in range(r1, r2 + 1) for c in range(c1, c2 + 1)]


def pop_value(p):
    return float(10 ** ((p[1] - 1) * 2 + (p[0] - 1)))          # distinct powers of ten


def block_values(b):
    """[[..]] of a block: distinct values that are no power of ten."""
    c1, r1, c2, r2 = b
    return [[float(3 * 10 ** ((q - 1) * 2 + (c - 1))) for c in range(c1, c2 + 1)] for q in range(r1, r2 + 1)]


def layout_dict(lay, order=None):
    """The dictionary ExcelModel.from_dict() gets; `order` permutes the insertion order."""
    items = []
    for p in lay['pop']:
        items.append((Q + a1(tuple(p)), pop_value(tuple(p))))
    for b in lay['blk']:
        vals = block_values(b)
        lit = ';'.join(','.join(repr(v) for v in row) for row in vals)
        items.append((Q + rect_name(b), '={%s}' % lit))
    for k, q in enumerate(lay['req']):
        r = q['rect'] if isinstance(q, dict) else q
        name = rect_name(r)
        f = '=SUM(%s%s)' % (Q, name) if len(cells_of(r)) > 1 else '=(%s%s+1)' % (Q, name)
        items.append((Q + 'H%d' % (k + 1), f))
    if order is not None:
        order.shuffle(items)
    return dict(items)


def parse_pos(name):
    """'[B1.XLSX]S1'!B3 -> (2, 3); a range name -> (c1, r1, c2, r2)."""
    ref = name.split('!')[-1].replace('$', '')
    parts = ref.split(':')

    def one(s):
        col = ''.join(ch for ch in s if ch.isalpha())
        return COLS.index(col.upper()) + 1, int(''.join(ch for ch in s if ch.isdigit()))
    if len(parts) == 1:
        return one(parts[0])
    a, b = one(parts[0]), one(parts[1])
    return a[0], a[1], b[0], b[1]


def observe(m, lay):
    """The abstract state of Assemble.tla read from a built model."""
    import schedula as sh
    from formulas.cell import RangesAssembler, InvRangesAssembler
    pop = {tuple(p) for p in lay['pop']}
    out = {}
    problems = []
    for k, n in m.dsp.function_nodes.items():
        fn = n['function']
        if isinstance(fn, InvRangesAssembler) or not isinstance(fn, RangesAssembler):
            continue
        rect = parse_pos(fn.output)
        if len(rect) == 2:
            rect = rect + rect
        base = fn.range.ranges[0]
        st = {'rect': list(rect), 'missing': sorted(fn.missing), 'cellIn': [], 'blockIn': [], 'phIn': [],
              'self': [], 'outCells': [], 'outBlocks': [],
              'inv': any(isinstance(n2['function'], InvRangesAssembler) and n2['function'].assembler is fn
                         for n2 in m.dsp.function_nodes.values())}
        for name, idx in fn.inputs.items():
            if name is sh.SELF:
                st['self'] = sorted(parse_pos(x) for x in idx)
                continue
            pos = parse_pos(name)
            if len(pos) == 4:
                st['blockIn'].append(list(pos))
            elif pos in pop:
                st['cellIn'].append(pos)
            else:
                st['phIn'].append(pos)
                want = (slice(pos[1] - rect[1], pos[1] - rect[1] + 1), slice(pos[0] - rect[0], pos[0] - rect[0] + 1))
                if idx is not None and tuple(idx) != want:
                    problems.append('slot of %s in %s is %r' % (a1(pos), rect_name(rect), idx))
        for name, idx in fn.outputs.items():
            pos = parse_pos(name)
            if len(pos) == 4:
                st['outBlocks'].append(list(pos))
            else:
                st['outCells'].append(pos)
        for f_ in ('cellIn', 'phIn', 'outCells'):
            st[f_] = sorted(st[f_])
        for f_ in ('blockIn', 'outBlocks'):
            st[f_] = sorted(st[f_])
        out[tuple(rect)] = st
    nodes = sorted(parse_pos(k) for k, d in m.dsp.default_values.items()
                   if not isinstance(k, sh.Token) and isinstance(d['value'], list)
                   and d['value'] == [[sh.EMPTY]])
    return out, nodes, problems


def canon_req(q):
    return {'rect': list(q['rect']),
            'missing': sorted(tuple(x) for x in q['missing']),
            'cellIn': sorted(tuple(x) for x in q['cellIn']),
            'blockIn': sorted(list(x) for x in q['blockIn']),
            'phIn': sorted(tuple(x) for x in q['phIn']),
            'self': sorted(tuple(x) for x in q['self']),
            'outCells': sorted(tuple(x) for x in q['outCells']),
            'outBlocks': sorted(list(x) for x in q['outBlocks']),
            'inv': bool(q['inv'])}


def layout_key(o):
    return json.dumps([sorted(map(list, o['pop'])), sorted(map(list, o['blk'])),
                       sorted(list(q['rect']) for q in o['req'])])


def unobservable(lay, q):
    """A requested single blank cell gets a node of its own and no assembler function."""
    r = q['rect']
    if (r[0], r[1]) != (r[2], r[3]):
        return False
    blk = {p for b in lay['blk'] for p in cells_of(b)}
    return (r[0], r[1]) not in blk


def final_view(o):
    """What is compared: the observable assemblers and the blank nodes."""
    reqs = sorted((canon_req(q) for q in o['req'] if not unobservable(o, q)), key=lambda x: x['rect'])
    return json.dumps({'req': reqs, 'nodes': sorted(list(x) for x in o['nodes'])}, sort_keys=True)


def expected_matrix(lay, r):
    import schedula as sh
    pop = {tuple(p) for p in lay['pop']}
    bl = {}
    for b in lay['blk']:
        vals = block_values(b)
        for i, q in enumerate(range(b[1], b[3] + 1)):
            for j, c in enumerate(range(b[0], b[2] + 1)):
                bl[(c, q)] = vals[i][j]
    rows = []
    for q in range(r[1], r[3] + 1):
        rows.append([pop_value((c, q)) if (c, q) in pop else bl.get((c, q), sh.EMPTY)
                     for c in range(r[0], r[2] + 1)])
    return rows


def run_export(item):
    """What to_dict() exports as blank (#EMPTY) are exactly the blank nodes the
    specification's machine creates for the layout (one of its final states)."""
    import random
    f = impl.F()
    lay = item['lay']
    rnd = random.Random(item['seed'])
    problems = []
    try:
        m = f.ExcelModel().from_dict(layout_dict(lay, rnd))
        d1 = m.to_dict()
        blanks = sorted(list(parse_pos(k)) for k, v in d1.items()
                        if isinstance(v, str) and v.upper() == '#EMPTY')
        allowed = sorted({json.dumps(json.loads(a)['nodes']) for a in item['allowed']})
        if json.dumps(blanks) not in allowed:
            problems.append({'kind': 'exported-blanks', 'what': 'exported as #EMPTY: %s; the machine allows %s'
                             % ([a1(tuple(p)) for p in blanks],
                                [[a1(tuple(p)) for p in json.loads(a)] for a in allowed])})
    except BaseException as ex:  # noqa
        if isinstance(ex, (KeyboardInterrupt, SystemExit)):
            raise
        problems.append({'kind': 'raises', 'exc': '%s: %s' % (type(ex).__name__, str(ex)[:200])})
    return problems


def run_layout(item):
    """item: {'lay': one obligation (for pop/blk/req), 'allowed': [final views], 'seed': n}
    -> list of problems."""
    import random
    import schedula as sh
    f = impl.F()
    lay = item['lay']
    rnd = random.Random(item['seed'])
    problems = []
    try:
        m = f.ExcelModel().from_dict(layout_dict(lay, rnd))
        try:
            obs, nodes, slot_problems = observe(m, lay)
        except (AttributeError, KeyError, TypeError, ValueError, IndexError) as ex:
            # the assembler objects cannot be read as the specification's state (their
            # representation changed): nothing is concluded from them, the values below decide
            obs = None
            problems.append({'kind': 'unobservable', 'exc': type(ex).__name__})
        if obs is not None:
            for sp in slot_problems:
                problems.append({'kind': 'slot', 'what': sp})
            view = json.dumps({'req': sorted(([dict(v, rect=list(k)) for k, v in obs.items()]),
                                             key=lambda x: x['rect']),
                               'nodes': sorted(list(x) for x in nodes)}, sort_keys=True)
            view = json.dumps(json.loads(view), sort_keys=True)
            allowed = [json.dumps(json.loads(a), sort_keys=True) for a in item['allowed']]
            if view not in allowed:
                problems.append({'kind': 'wiring', 'observed': json.loads(view),
                                 'allowed': [json.loads(a) for a in allowed[:3]]})
        sol = m.calculate()
        for q in lay['req']:
            r = q['rect']
            if len(cells_of(r)) == 1:
                continue
            node = (Q + rect_name(r)).upper()
            got = sol.get(node)
            if got is None:
                problems.append({'kind': 'value', 'rect': rect_name(r), 'observed': None})
                continue
            arr = got.value.tolist()
            want = expected_matrix(lay, r)
            same = len(arr) == len(want) and all(
                len(x) == len(y) and all((a is b) or (a is not sh.EMPTY and b is not sh.EMPTY and a == b)
                                         for a, b in zip(x, y)) for x, y in zip(arr, want))
            if not same:
                problems.append({'kind': 'value', 'rect': rect_name(r), 'observed': repr(arr)[:200],
                                 'expected': repr(want)[:200]})
        # a value supplied through a requested rectangle reaches the populated (constant)
        # cells inside it and the blanks that got no node of their own before (Assemble:
        # outCells / missing); blanks with an earlier node are the recorded C07 finding
        pop = {tuple(p) for p in lay['pop']}
        for q in lay['req']:
            r = q['rect']
            cs = cells_of(r)
            if len(cs) == 1 or not (set(cs) & pop):
                continue
            rows = [[float(1000 + 10 * c + qq) for c in range(r[0], r[2] + 1)] for qq in range(r[1], r[3] + 1)]
            sol2 = m.calculate(inputs={(Q + rect_name(r)).upper(): rows})
            for p_ in sorted(set(cs) & pop):
                got = sol2.get((Q + a1(p_)).upper())
                want = float(1000 + 10 * p_[0] + p_[1])
                val = got.value.tolist()[0][0] if got is not None else None
                if val != want:
                    problems.append({'kind': 'supply', 'rect': rect_name(r),
                                     'what': 'cell %s shows %r after %r was supplied through %s'
                                             % (a1(p_), val, want, rect_name(r))})
    except BaseException as ex:  # noqa
        if isinstance(ex, (KeyboardInterrupt, SystemExit)):
            raise
        problems.append({'kind': 'raises', 'exc': '%s: %s' % (type(ex).__name__, str(ex)[:200])})
    return problems


def run_shard(items):
    impl.F()
    return [(it['key'], run_export(it) if it.get('mode') == 'export' else run_layout(it)) for it in items]


def check(rep, n_layouts, seed_, pid='C03', mode=None):
    """TLC on Assemble.tla (all layouts of the 2 x 3 sheet), then `n_layouts` of them
    (all when None) on the real code."""
    import os
    import random
    from .tlc import run_tlc, parse_obl
    from .common import pmap, shards, NCPU, MachineryError
    src = open('/verif/spec/Assemble.cfg').read().replace('EmitObl = FALSE', 'EmitObl = TRUE')
    tmp = 'Assemble_run%d.cfg' % os.getpid()
    open(os.path.join('/verif/spec', tmp), 'w').write(src)
    try:
        r = run_tlc('Assemble', tmp, timeout=2400, heap='8g')
    finally:
        os.remove(os.path.join('/verif/spec', tmp))
    rep.add_tlc(r, 'Assemble: RangesAssembler push / sorted add over every layout of a 2 x 3 sheet '
                   '(<= 1 block, <= 2 requested rectangles), every add order; WiringExact '
                   'SelfOnlyWhenMany PlaceholdersExist InverseExact')
    obl = parse_obl(r['out'])
    if not obl:
        raise MachineryError('Assemble: no obligations')
    by = {}
    for o in obl:
        by.setdefault(layout_key(o), []).append(o)
    keys = sorted(by)
    rnd = random.Random(seed_ * 7919 + 29)
    if n_layouts is not None and n_layouts < len(keys):
        # prefer layouts with blanks shared between rectangles and with blocks
        rich = [k for k in keys if len(by[k]) > 1 or by[k][0]['blk']]
        rnd.shuffle(rich)
        rest = [k for k in keys if k not in set(rich[:n_layouts // 2])]
        rnd.shuffle(rest)
        keys = rich[:n_layouts // 2] + rest[:n_layouts - min(len(rich), n_layouts // 2)]
    items = [{'key': k, 'lay': by[k][0], 'allowed': sorted({final_view(o) for o in by[k]}),
              'seed': seed_ * 1000003 + i, 'mode': mode} for i, k in enumerate(keys)]
    res = []
    for part in pmap(run_shard, shards(items, NCPU * 4), chunk=1):
        res.extend(part)
    nviol = 0
    unobs = 0
    for key, problems in res:
        rep.count()
        rep.distinct(('asm', key))
        for p in problems:
            if p['kind'] == 'unobservable':
                unobs += 1
                continue
            nviol += 1
            lay = by[key][0]
            rep.violation({'kind': 'assemble-' + p['kind'], 'layout': key, 'what': p.get('rect') or p.get('what')},
                          {'layout': {'populated': [a1(tuple(x)) for x in lay['pop']],
                                      'blocks': [rect_name(b) for b in lay['blk']],
                                      'requested': [rect_name(q['rect']) for q in lay['req']]},
                           'problem': p,
                           'how': 'ExcelModel().from_dict(cells + {=SUM(rect)} per requested rectangle); the '
                                  'RangesAssembler objects of the dispatcher read back as the state of '
                                  'Assemble.tla; then calculate() and every rectangle read position by position'})
    rep.cov['assemble_layouts_in_spec'] = len(by)
    rep.cov['assemble_layouts_replayed'] = len(items)
    rep.cov['assemble_layouts_whose_state_could_not_be_read'] = unobs
    rep.cov['assemble_layouts_with_order_freedom'] = sum(1 for k in by if len({final_view(o) for o in by[k]}) > 1)
    return len(items)
