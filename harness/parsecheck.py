"""Binding of Grammar.tla / ShuntingYard.tla to the real parser (C01, C18, C09).

An obligation is a token sequence with the grammar's verdict, canonical
rendering and tree (prefix form).  It is spelled as formula text in several
ways, parsed by formulas.Parser and compared:
  accept / reject (FormulaError only),
  exported text (get_expr) == Render(tree),
  the sequence the builder received == post-order of the tree,
  compiled value == value of the tree walked with the code's own operators.
"""
import random
from . import impl
from . import values as V

REFS = ('A1', 'B2', 'C3', 'B2:C3')
SIGNS = ('+', '-')
OPERANDS = {'1', '2', '3', 'TRUE', '"s"', 'A1', 'B2', 'C3', 'B2:C3'}
FN = {'SUM(', 'IF(', 'MAX(', 'ARRAY('}
BINOPS = {'=', '<', '>', '<=', '>=', '<>', '&', '+', '-', '*', '/', '^'}


QUALS = ("'S 1'!", "'[B.XLSX]T'!", "S2!", "'it''s'!", "'[B.XLSX]S 1'!")


def unqual(text):
    """Remove the qualifications the 'qual' spelling style adds (as the library writes
    them back: upper-cased, quotes kept or dropped)."""
    if text is None:
        return None
    import re
    for q in ("'S 1'!", "'[B.XLSX]T'!", "'[B.XLSX]S 1'!", "S2!", "'IT''S'!", "S 1!", "[B.XLSX]T!",
              "[B.XLSX]S 1!", "IT'S!", "IT''S!"):
        text = re.sub(re.escape(q), '', text, flags=re.I)
    return text


def is_operand_end(t):
    return t in OPERANDS or t in (')', '}', '%')


def is_operand_start(t):
    return t in OPERANDS or t in FN or t in ('(', '{')


def unspellable(toks):
    """Operand end directly followed by operand start: any white space put
    between them would itself be the intersection operator."""
    refs = any(t in REFS or t in ('_', ':') for t in toks)
    for x, y in zip(toks, toks[1:]):
        if is_operand_end(x) and is_operand_start(y) and refs:
            return True
    return False


def decode_prefix(p):
    """Prefix form (Grammar!Prefix) -> nested tuples."""
    pos = [0]

    def rec():
        k = p[pos[0]]
        pos[0] += 1
        if k == 'L':
            v = p[pos[0]]
            pos[0] += 1
            return ('leaf', v)
        if k == 'E':
            return ('empty',)
        if k == 'U':
            op = p[pos[0]]
            pos[0] += 1
            return ('un', op, rec())
        if k == 'B':
            op = p[pos[0]]
            pos[0] += 1
            l = rec()
            r = rec()
            return ('bin', op, l, r)
        if k == 'F':
            name, n = p[pos[0]], int(p[pos[0] + 1])
            pos[0] += 2
            return ('fn', name, tuple(rec() for _ in range(n)))
        raise ValueError(k)

    t = rec()
    assert pos[0] == len(p)
    return t


def postorder(t):
    k = t[0]
    if k == 'leaf':
        return [t[1]]
    if k == 'empty':
        return ['']
    if k == 'un':
        return postorder(t[2]) + [t[1]]
    if k == 'bin':
        return postorder(t[2]) + postorder(t[3]) + [t[1]]
    out = []
    for a in t[2]:
        out += postorder(a)
    return out + [t[1]]


def has_refs(t):
    k = t[0]
    if k == 'leaf':
        return t[1] in REFS
    if k == 'empty':
        return False
    if k == 'un':
        return has_refs(t[2])
    if k == 'bin':
        return has_refs(t[2]) or has_refs(t[3])
    return any(has_refs(a) for a in t[2])


def grid_value(c, r):
    """The content of cell (column, row) of the sheet the reference formulas are
    evaluated on: distinct powers so that sums tell which cells were seen, how often."""
    return float(10 ** ((r - 1) * 3 + (c - 1))) if c <= 3 and r <= 3 else 0.0


def ref_range(name):
    """A Ranges object for a reference name (any sheet qualification), filled from the grid."""
    impl.F()
    from formulas.ranges import Ranges
    rng = Ranges.get_range(name)
    vals = [[grid_value(c, r) for c in range(rng['n1'], min(rng['n2'], 6) + 1)]
            for r in range(int(rng['r1']), min(int(rng['r2']), 6) + 1)]
    return Ranges().push(name, vals)


def filled(rg):
    """The (possibly multi-area, compile-time folded) reference of a compiled formula's
    input with every area filled from the grid."""
    import numpy as np
    from formulas.ranges import Ranges
    out = Ranges()
    for r in rg.ranges:
        out.set_value(r, np.array(
            [[grid_value(c, q) for c in range(r['n1'], min(r['n2'], 6) + 1)]
             for q in range(int(r['r1']), min(int(r['r2']), 6) + 1)], object))
    return out


def treewalk(t):
    """Value of the tree computed with the library's own operator/function
    table - independent of how the library parses."""
    impl.F()
    from formulas.functions.operators import OPERATORS
    from formulas.functions import get_functions
    k = t[0]
    if k == 'leaf':
        v = t[1]
        if v in REFS:
            return ref_range(v)
        if v.startswith('"'):
            return v[1:-1].replace('""', '"')
        if v.upper() in ('TRUE', 'FALSE'):
            return v.upper() == 'TRUE'
        return eval(v)
    if k == 'empty':
        return 0
    if k == 'un':
        op = {'u-': 'U-', 'u+': 'U+', '%': '%'}[t[1]]
        return OPERATORS[op](treewalk(t[2]))
    if k == 'bin':
        return OPERATORS[t[1].upper()](treewalk(t[2]), treewalk(t[3]))
    f = get_functions()[t[1].upper()]
    if isinstance(f, dict):
        f = f['function']
    return f(*[treewalk(a) for a in t[2]])


# ---------------------------------------------------------------------------
# spelling
# ---------------------------------------------------------------------------
def spell(toks, style, rnd=None):
    """Concrete formula text for an abstract token sequence.
    style: 'min' | 'spaced' | 'lower' | 'mixed'.  White space is only added
    where it is insignificant (next to a binary operator in binary position, a
    separator or inside a parenthesis) - never between two operands, where it
    would be the intersection operator."""
    ws = {'tab': '\t', 'nl': '\n'}.get(style, ' ')
    if style in ('tab', 'nl'):
        style = 'spaced'
        rnd = None
    out = []
    prev = None
    prev_binary = False
    nref = 0
    for t in toks:
        s = ws if t == '_' else t
        if style == 'qual' and t in REFS:
            # sheet- and workbook-qualified spellings, quoted and not, in turn
            s = QUALS[nref % len(QUALS)] + t
            nref += 1
        if style in ('lower', 'mixed') and (t in FN or t in REFS or t == 'TRUE'):
            s = s.lower() if style == 'lower' else ''.join(
                c.lower() if i % 2 else c.upper() for i, c in enumerate(s))
        binary = t in BINOPS and prev is not None and is_operand_end(prev)
        if prev is not None:
            fuse = (prev in OPERANDS and (t in OPERANDS or t in FN)) or \
                   (prev in REFS and t in ('(', '{'))
            if fuse:
                out.append(ws)   # "1 2", "1 SUM(", "A1 (" must not fuse
            elif style == 'spaced' and t != '_' and prev != '_':
                if binary or prev_binary or prev in (',', '(', ';', '{') or \
                        prev in FN or t in (')', ',', '}', ';'):
                    out.append(ws if rnd is None else rnd.choice([' ', '  ']))
        out.append(s)
        prev, prev_binary = t, binary
    return '=' + ''.join(out)


class Parsed:
    __slots__ = ('status', 'exc', 'expr', 'rpn', 'value', 'vstatus')


def run_parser(text, want_value=True):
    """Parse (and compile + evaluate) with the real library."""
    f = impl.F()
    from formulas import _verif
    from formulas.errors import FormulaError
    _verif.drain()
    p = Parsed()
    p.exc = p.expr = p.rpn = p.value = None
    p.vstatus = None
    try:
        res = impl.with_timeout(f.Parser().ast, 5, text)
    except FormulaError as ex:
        _verif.drain()
        p.status = 'rej'
        return p
    except impl.Timeout:
        _verif.drain()
        p.status = 'escape'
        p.exc = 'Timeout'
        return p
    except BaseException as ex:  # noqa
        if isinstance(ex, (KeyboardInterrupt, SystemExit)):
            raise
        _verif.drain()
        p.status = 'escape'
        p.exc = type(ex).__name__
        return p
    tokens, builder = res
    evs = _verif.drain()
    p.status = 'acc'
    p.expr = builder[-1].get_expr
    rpn = []
    for e in evs:
        if e['ev'] == 'rpn':
            n = e['name']
            rpn.append(n)
    p.rpn = rpn
    if want_value:
        try:
            func = builder.compile()
            # references get the grid's content (whatever sheet they are written on)
            p.value = func(*[filled(rg) for rg in func.inputs.values()])
            p.vstatus = 'ok'
        except BaseException as ex:  # noqa
            if isinstance(ex, (KeyboardInterrupt, SystemExit)):
                raise
            p.vstatus = 'raise:' + type(ex).__name__
    return p


def norm_rpn(names):
    """Names as the builder sees them -> names as Grammar!PostOrder writes
    them (intersection is ' ' in the code and '_' in the spec; function and
    reference names are upper-cased by the code)."""
    out = []
    for n in names:
        if n == ' ':
            n = '_'
        out.append(n.upper() if n not in ('u-', 'u+') else n)
    return out
