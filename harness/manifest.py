"""Generates /verif/MANIFEST.json from the table below (python -m harness.manifest)."""
import json
import os
import subprocess
from .common import VERIF

ALL = ['C%02d' % i for i in range(1, 21)]

# property -> (technique, level text, level note, design ref)
CLAIMED = {
    'C02': (
        'TLC model checking of XlOps.tla (operator table + order theorems) '
        '+ exhaustive obligation replay into the code + TLC trace validation '
        'of recorded random events (XlOpsTrace.tla)',
        'TLC checks XlOps.tla over the complete operator x operand-pool cross '
        'product (well-formedness, left-most error, one total order, uniform '
        'coercion) and emits every table entry; each entry is replayed on the '
        'real operators through two spellings (parsed literals, referenced '
        'cells). Seeded random decimal/text/logical/blank operands are run '
        'through the real code and every recorded event must be a behaviour '
        'of the spec (XlOpsTrace.tla). Exhaustive over the stated pool; '
        'numeric closeness of transcendental results is not decided.',
        'Trusted: TLC, the transcription of Excel\'s operator rules in '
        'XlOps.tla, alpha/gamma in harness/values.py (numbers compared with '
        'relative tolerance 1e-9).',
        'DESIGN.md 4/C02'),
}

REASON_PENDING = 'check not built yet in this round (planned, see DESIGN.md section 8)'


def build():
    repo_commits = subprocess.run(
        ['git', '-C', '/repo', 'log', '--format=%H %s'],
        stdout=subprocess.PIPE).stdout.decode().splitlines()
    hooks = [l.split()[0] for l in repo_commits if ' verif:' in l]
    checks = []
    for pid in ALL:
        if pid not in CLAIMED:
            continue
        tech, text, note, ref = CLAIMED[pid]
        checks.append({
            'property_id': pid,
            'quick_cmd': 'bin/check %s --tier quick' % pid,
            'thorough_cmd': 'bin/check %s --tier thorough' % pid,
            'evidence_file': '/verif/evidence/%s.json' % pid,
            'replay_cmd_template': 'bin/check %s --replay {path}' % pid,
            'engine': 'tlc+replay',
            'level_claimed': {'category': 'model_checking', 'text': text,
                              'design_ref': ref},
            'level_note': note,
            'technique': tech,
        })
    man = {
        'version': 1,
        'setup_cmd': 'sh bin/setup',
        'hooks': {
            'guard': 'FORMULAS_VERIF',
            'enable': 'FORMULAS_VERIF=1 in the environment before `import '
                      'formulas` (pure Python, no build step; the checks '
                      'import /repo\'s working tree through sys.path)',
            'baseline_off_cmd': 'cd /repo && /venv/bin/python -m pytest -ra -q '
                                '-p no:cacheprovider --timeout=900 '
                                '--continue-on-collection-errors',
            'source_commits': hooks,
            'add_only': True,
        },
        'engines': [{
            'name': 'tlc+replay', 'path': '/verif/harness',
            'serves_properties': sorted(CLAIMED),
            'kind_free_text': 'TLA+ specifications in /verif/spec checked by '
                              'TLC; obligations/behaviours emitted by TLC are '
                              'replayed into the real library and traces '
                              'recorded from the real library (guarded hooks) '
                              'are validated by TLC trace specifications',
        }],
        'checks': checks,
        'not_applicable': [
            {'property_id': p, 'reason': REASON_PENDING}
            for p in ALL if p not in CLAIMED],
        'notes': 'See DESIGN.md. Exit codes: 0 held, 1 violation (VIOLATION '
                 'line), 2 machinery failure. Known findings: '
                 'known_findings.jsonl.',
    }
    with open(os.path.join(VERIF, 'MANIFEST.json'), 'w') as f:
        json.dump(man, f, indent=1)
    return man


if __name__ == '__main__':
    m = build()
    print('claimed:', [c['property_id'] for c in m['checks']])
