"""Generates /verif/MANIFEST.json from the table below (python -m harness.manifest)."""
import json
import os
import subprocess
from .common import VERIF

ALL = ['C%02d' % i for i in range(1, 21)]

# property -> (technique, level text, level note, design ref)
CLAIMED = {
    'C01': (
        'TLC model checking of ShuntingYard.tla (the parser as a token-step '
        'machine) against Grammar.tla over the prefix tree of all token '
        'sequences + replay of every sequence into formulas.Parser in several '
        'spellings + TLC trace validation (ParseTrace.tla) of recorded parses '
        'of random formulas',
        'TLC visits every token sequence up to the bound over three alphabets '
        '(operators/signs/parentheses; functions/separators/arrays; '
        'references/intersection) and checks in each state that the '
        'implementation-shaped parser machine agrees with the ideal grammar '
        '(modulo two named deviations), that the builder receives the '
        'post-order of the tree, that the rendering re-parses and that '
        'redundant parentheses change nothing. Every state is an obligation '
        'replayed on the real parser: accept/reject, exported text, builder '
        'sequence (hook H2) and value (tree walked with the library\'s own '
        'operators) in minimal / spaced / lower / mixed-case / redundantly '
        'parenthesised spellings. Random trees to depth 5 over the whole '
        'vocabulary are parsed with hooks on and each recorded parse is '
        'validated step by step by ParseTrace.tla. Bounded: sequence length '
        '6 (quick) / 7 (thorough).',
        'Trusted: TLC; Grammar.tla as the statement of Excel\'s grammar; the '
        'spelling function (harness/parsecheck.py spell) and the abstraction '
        'of code tokens to spec tokens (c01_random.abstract_tok).',
        'DESIGN.md 4/C01'),
    'C03': (
        'TLC model checking of Workbook.tla (history-free meaning Sem vs Calc: '
        'every schedule of firings of every generated workbook) and of '
        'Assemble.tla (wiring of ranges) + replay of '
        'each workbook through both load paths, orders, spellings and hash '
        'seeds + TLC trace validation (CalcTrace.tla) of the recorded '
        'calculation',
        'For seeded random acyclic workbooks (constants of every kind, '
        'single-cell, range, cross-sheet, cross-book, defined-name and '
        'array-formula references, unpopulated cells) TLC explores every '
        'schedule of firings and checks that every partial valuation agrees '
        'with the history-free meaning, that quiescence is total and that '
        'overridden cells never fire; it writes Sem(W). Each workbook is '
        'built from a dictionary and from .xlsx files (all books loaded, or '
        'only the first / last so the other is pulled in on demand) under '
        'shuffled cell/sheet/book orders, varied spellings and two (quick) / '
        'six (thorough) PYTHONHASHSEED values in separate processes; every '
        'cell must equal Sem. The sequence of values the cell nodes receive '
        '(hook H4) is validated step by step by CalcTrace.tla: a formula '
        'fires only after its inputs, with exactly its formula\'s value. '
        'Assemble.tla is the range-wiring machine of ExcelModel.assemble() / '
        'RangesAssembler (push, sort by missing with nondeterministic ties, add) '
        'over every layout of a 2 x 3 sheet: TLC checks WiringExact, '
        'SelfOnlyWhenMany, PlaceholdersExist, InverseExact and emits every final '
        'state; the RangesAssembler objects of real models (1 500 layouts quick, '
        'all 21 224 thorough) are projected onto the specification\'s variables '
        'and must equal a final state TLC reached for that layout, and the '
        'calculated rectangle is read position by position.',
        'Trusted: TLC; the generator\'s geometry resolution (ranges as id '
        'matrices) and spelling; the small function set of Workbook.tla '
        '(SUM, COUNT, MAX, MIN, IF, IFERROR, ISERROR). Whole-column references '
        '(SUM(A:A), also over a column that holds an array-formula block) only '
        'in a small separate family of workbooks (6 quick / 30 '
        'thorough, dict and file paths): each costs seconds and gigabytes in '
        'this library.',
        'DESIGN.md 4/C03'),
    'C04': (
        'TLC model checking of Refs.tla (column letters bijective over all '
        '16 384 columns; the space of spellings with their denotations) + '
        'replay: every spelling resolved by the real code in three ways, '
        'partition by identifier = partition by denotation, identifiers read '
        'back, _index2col/_col2index for every column',
        'Refs.tla checks ColBijection / LastCol for every column and RelAbs '
        'for the relative spellings, and enumerates the spellings (13 styles: '
        'A1, lower case, $ markers, R1C1, relative offsets from two hosts, '
        'redundant X:X, whole rows / columns and their full-extent forms) x '
        'sheet part (none, plain, lower, quoted) x workbook part (none, file, '
        'external-link id) of rectangles over boundary columns and rows, each '
        'with its denotation. Every spelling is rendered and resolved by the '
        'Range token, by Ranges.push and as the input of a compiled formula: '
        'spellings of one rectangle must get one identifier on every route, '
        'different rectangles / sheets / workbooks different ones, the three '
        'routes must agree (fast paths vs the general resolver) and every '
        'identifier must read back to itself. The identifier text is never '
        'predicted.',
        'Trusted: TLC; the rendering of a spelling record to text '
        '(harness/checks/c04.py render). Case of workbook file names and '
        'reversed corners (B2:A1) are not among the spellings the property '
        'lists and are not generated.',
        'DESIGN.md 4/C04'),
    'C05': (
        'TLC model checking of XlArray.tla (lifting under broadcasting, '
        'fitting, arity independence over all shape combinations <= 3x3) + '
        'replay of every case through Cell/Ranges with literals and ranges + '
        'TLC trace validation (XlArrayTrace.tla) of the lifting law on the '
        'code\'s own scalar results',
        'TLC checks ShapeOK, Pointwise, FitShape, FitIdempotent, FitScalar and '
        'ArityIndependent for every operator/shape/shape case (8 shapes up to '
        '3x3, mixed-kind elements incl. errors), every fit of every shape into '
        'every destination up to 3x3 and CONCATENATE with 1..40 arguments, and '
        'emits every case; each is replayed on the real code with array '
        'literals and with referenced ranges (Cell over a destination range, '
        'Ranges.push for fitting; a scalar also as the one-element result of '
        'an operator). For 20 further element-wise functions with '
        'random array arguments the recorded result must be the lifting - by '
        'the spec\'s broadcasting rule - of the code\'s own scalar results '
        '(XlArrayTrace.tla).',
        'Trusted: TLC; XlOpsDef.tla for the scalar operators; array-literal '
        'and range spelling in the harness.',
        'DESIGN.md 4/C05'),
    'C06': (
        'TLC model checking of Rects.tla (transcription of ranges.py against '
        'cell-set definitions, all operand combinations of the bounded grid) + '
        'replay of every case on formulas.ranges.Ranges and through formulas + '
        'TLC trace validation (RectsTrace.tla) of random multi-area operations',
        'TLC checks for every pair of rectangles of the 4x4 (quick) / 5x5 '
        '(thorough) grid, every (pair, rectangle) and every pair/triple of the '
        '3x3 grid that the loop-by-loop transcription of _intersect, _split, '
        '__and__, __or__, __add__, __sub__, simplify/_merge yields exactly the '
        'cells (and duplicates) the cell-set definitions give, a cell of an '
        'intersection once per pair of covering areas (InterMultiplicity). '
        'Every case is '
        'replayed on the real Ranges class: areas, duplicates, #NULL! for an '
        'empty intersection, different-sheet errors, and the value arrays '
        'position by position with content = coordinates; a sample is spelled '
        'as =SUM(...) formulas. Random multi-area operands on two sheets are '
        'run on the real class and each recorded result is validated by '
        'RectsTrace.tla against both the ideal and the transcription.',
        'Trusted: TLC; the cell-set definitions of Rects.tla; rectangle <-> '
        'A1-name conversion in the harness. Whole-row/column operands are not '
        'enumerated here (sampled in C04).',
        'DESIGN.md 4/C06'),
    'C07': (
        'TLC model checking of Workbook.tla with supplied inputs (Sem(W, ov), '
        'every schedule, NoFireOverridden) and of Lifecycle.tla (histories) + '
        'replay of TLC-generated histories on real models + TLC trace '
        'validation (CalcTrace.tla) of each recorded calculation',
        'For seeded workbooks and three override sets each (constants, formula '
        'cells, unpopulated cells of referenced ranges, whole ranges, values '
        'supplied through defined names) TLC checks every schedule from '
        'Base(W, ov): overridden cells keep the supplied value and never '
        'fire, everything else equals the history-free meaning. Lifecycle.tla '
        'is checked exhaustively to length 3 and sampled by simulation to '
        'length 8 (calculate with/without overrides and output selection, '
        'compile, compiled call, to_dict, write); each sampled history is '
        'replayed on one real model (dict- and file-built) and after every '
        'calculate() every (requested) cell must equal Sem(W, ov) whatever '
        'came before. Each recorded calculation (hook H4) must be a Calc '
        'behaviour starting from Base(W, ov) (CalcTrace.tla). HistoryFree is '
        'also observed without any expected value: 400 (quick) sequences of '
        '2-4 calculations with supplied cells / unpopulated range members / '
        'whole sparse ranges run on one model, and the last calculation must '
        'give the same solution on a fresh model (harness/hdjob.py); the '
        'history also holds compilations, and inputs are also supplied through '
        'defined names. Directed '
        'workbooks: an array-formula block wholly inside a larger referenced '
        'range, values supplied through that range or its name.',
        'Trusted: TLC; the generator and the concretisation of override sets; '
        'Lifecycle.tla is a history generator with read/write sets taken from '
        'reading the code, not a proof about the code.',
        'DESIGN.md 4/C07'),
    'C08': (
        'TLC model checking of the compile model in Workbook.tla '
        '(FrozenIndependent, CompiledEqualsSem; the code\'s SELF-path deviation '
        'named) + replay: every compiled function called on every argument '
        'tuple vs Sem(W, inputs := arguments) and vs calculate(); single '
        'formulas: compile() vs literals written in',
        'Workbook.tla models ExcelModel.compile as pre-evaluation without the '
        'inputs, freezing, and later evaluation from frozen values and '
        'arguments; TLC checks for every generated (workbook, input list, '
        'argument tuple) that nothing frozen depends on an argument and that '
        'the compiled function equals the history-free meaning - outright for '
        'the ideal, and modulo the named SELF-path deviation for the model of '
        'the code. The real m.compile(inputs, outputs) is built for three '
        'input lists per workbook (cells, names, ranges, unpopulated cells) '
        'and called with three argument tuples of mixed kinds each (values '
        'that flip IF branches, errors, text); results must equal Sem and the '
        'values calculate(inputs=, outputs=) gives (where a value supplied '
        'through a range / name does not reach a formula member in calculate() '
        'either - the recorded C07 finding - agreement with calculate() is what '
        'is required; the recorded finding is limited to blank inputs without '
        'a node of their own). Directed workbooks with two overlapping ranges '
        'sharing one blank cell, and with a fully populated range beside the '
        'inputs: after the argument tuples the model is calculated with every '
        'other constant supplied and the function, called again with its first '
        'arguments, must answer as it did the first time. Random single formulas with references: '
        'compile()(*args in func.inputs order), arguments including pairs of '
        'different error values, must equal the formula with the arguments '
        'written in as literals.',
        'Trusted: TLC; generator/concretisation; the single-formula part is a '
        'metamorphic comparison of two paths of the library (no spec oracle).',
        'DESIGN.md 4/C08'),
    'C09': (
        'TLC model checking of Codec.tla (text-constant escaping over all '
        'strings of two adversarial alphabets), Workbook.tla (Sem of the '
        're-imported workbook) and ShuntingYard.tla RenderFix + replay: every '
        'enumerated string and seeded workbooks through to_dict -> JSON -> '
        'from_dict, second export, re-parse of exported formula text',
        'Codec.tla models the export/import of text constants (what is '
        'wrapped as ="...", how quotes are doubled, what import reads as '
        'formula / error / blank placeholder); TLC checks RoundTripOK and '
        'PlainUntouched for all 7381 strings up to length 4 over {= " # a A N '
        '/ 1 +}, all strings up to length 6 over the letters of #EMPTY and '
        'all strings up to length 5 over {space = { # N / A ! 1} (leading '
        'white space, {=, sheet-qualified error names), '
        'and every one of them (quick: every string that needs escaping and a '
        'sample of the others) is stored as a text cell of a real workbook, '
        'exported, imported and compared (value and second export). Seeded '
        'workbooks with every constant kind, names, array formulas and '
        'cross-sheet/book references are exported, passed through json, '
        're-imported: every cell must equal Sem(W) (also under supplied '
        'inputs) and the second export must equal the first. The exported '
        'text of every accepted token sequence of C01 is parsed again and '
        'must give the same exported text.',
        'Trusted: TLC; the generator; openpyxl for writing the source files.',
        'DESIGN.md 4/C09'),
    'C10': (
        'TLC model checking of Cycles.tla (Johnson\'s algorithm as in cycle.py, '
        'every set pop a nondeterministic choice, vs Elementary(G)) and of the '
        'lazy calculation machine of Workbook.tla (LazySem) + replay of all '
        '4-node digraphs and of generated cyclic workbooks under orders and '
        'hash seeds + TLC trace validation of yields on larger graphs',
        'Cycles.tla transcribes simple_cycles loop by loop; TLC checks Sound, '
        'EachOnce and Termination for all 512 digraphs on 3 nodes under every '
        'choice sequence, and emits Elementary(G) for all 65 536 digraphs on 4 '
        'nodes; the real simple_cycles runs on each with string node names, '
        'shuffled insertion orders and 3 (quick) / 8 (thorough) PYTHONHASHSEED '
        'values in separate processes; yields on random 5-7 node digraphs are '
        'validated by CyclesTrace.tla. Workbook.tla defines evaluation by need '
        '(IF / IFERROR evaluate only what is selected), marks the cells that '
        'wait for themselves #CIRC! and continues with the mark as an error '
        'value; TLC checks that every order of lazy evaluation agrees with '
        'LazySem and becomes total. Generated cyclic workbooks (unguarded, '
        'guarded, fallback, range and name back references; rings of 2-3 '
        'guarded cells with independent guards; one cell closing two cycles) '
        'are finished with '
        'circular=True and calculated under both load paths, shuffled orders '
        'and the hash seeds, with a watchdog; every cell is compared with '
        'its expectation class (ordinary value exact, #CIRC! on unavoidable '
        'cycles, any error downstream), and the outcomes of one workbook must '
        'be identical under every hash seed and load path. A cell marked '
        'although evaluation by need gives it a value is attributed to the '
        'recorded static-cut finding only when some guard in the cell\'s '
        'component is selected towards the cycle (then the place of the cut '
        'matters); otherwise it is a violation.',
        'Trusted: TLC; the generator. The static cut analysis of the code is '
        'not transcribed; its systematic deviations from evaluation by need '
        '(and the order-dependent placement of the mark on an unavoidable '
        'multi-cell cycle) are recorded as known findings.',
        'DESIGN.md 4/C10'),
    'C13': (
        'TLC model checking of Volatile.tla (NeverFrozen, OncePerEpoch over '
        'every way of obtaining an executable object) + replay with the '
        'harness controlling clock and random seed + TLC validation of the '
        'recorded vol events (hook H5)',
        'Volatile.tla: obtaining an object (parse+compile, load, import, JSON '
        'round trip, deepcopy, dill, compile from the model) never fixes a '
        'volatile value - ExcelModel.compile\'s freezing is a named deviation '
        '- and every use evaluates every site once. 16 wrappers x NOW, TODAY, '
        'RAND, RANDBETWEEN (volatile call at every depth and argument '
        'position, selected and fallback branches) are compiled, deep-copied '
        'and dilled; workbooks with volatile cells, dependents and volatile '
        'defined names are obtained in six ways; every object is used four '
        'times with the clock of formulas.functions.date and numpy\'s seed '
        'set by the harness: values must differ whenever clock and seed '
        'differ and repeat with the clock for NOW/TODAY; dependents of one '
        'volatile cell see one value; RAND in [0,1). RandBetween.tla defines '
        'RANDBETWEEN over all pairs of half / tenth bounds (InBounds, '
        'NumIffEmpty, Ends); each pair is drawn 40 times on the real function: '
        'an integer of the allowed set, #NUM! when no integer lies between the '
        'bounds, not always the same value. NOW / TODAY under a clock that '
        'advances at every reading, also across midnight: the value lies '
        'between the first and last reading of its own evaluation; one '
        'function / model is also evaluated again and again while the clock '
        'moves on (an hour across midnight, 17 h, 23 h 59, days, back). The '
        'recorded vol events (function, compiling flag) must show '
        'no real evaluation while obtaining and exactly one per site per use.',
        'Trusted: TLC; the clock patch (module attribute of '
        'formulas.functions.date) and numpy seeding. Equal volatile '
        'sub-expressions of one formula share one evaluation in this library; '
        'the property does not ask call sites to be independent.',
        'DESIGN.md 4/C13'),
    'C14': (
        'TLC model checking of Workbook.tla with unresolvable items (every '
        'schedule reaches a total fixed point = SemF) over every subset of the '
        'fault sites + replay on real files with the missing items really '
        'missing + TLC trace validation (CalcTrace.tla) of the recorded '
        'calculation',
        'For generated workbooks 1-3 fault sites are chosen (unknown and '
        '_xlfn. functions, missing sheets - sorting before and after the '
        'existing ones -, missing books, an unreadable book file, undefined '
        'names, #REF! literals; bare, inside arithmetic, inside SUM, inside '
        'IFERROR / ISERROR) and every subset of them is one case. TLC explores '
        'every schedule: no stuck state, every value equals SemF (errors as '
        'ordinary values; a formula using an unimplemented function is '
        '#NAME? as a whole). Each case is written to .xlsx with the absent '
        'files absent and the unreadable one garbage (one seed in three with '
        'numeric link ids: every book\'s link table starts with an unreadable '
        'LEGACY.XLS, cross-book references are written [n]Sheet!A1 and faults '
        'go through [1]; fault sites also hold several distinct unresolved '
        'items in one formula), loaded, finished and '
        'calculated: no exception, every cell equals SemF - hence cells '
        'outside the faults\' cones keep the fault-free values and IFERROR / '
        'ISERROR intercept - and the recorded calculation is a Calc behaviour.',
        'Trusted: TLC; the generator; openpyxl. Faults are injected in the '
        'file path only (from_dict has no completion step).',
        'DESIGN.md 4/C14'),
    'C15': (
        'TLC model checking of Complete.tla (Needs closure vs the work-list '
        'machine of complete() under every pop order) + replay of '
        'from_ranges() on generated workbooks against Sem and the full model '
        '+ TLC validation of what each real run loaded (hook H7)',
        'Complete.tla defines Needs(W, outs) and transcribes the work-list of '
        'ExcelModel.complete() (stack, done, load a rectangle, push the '
        'inputs of every newly registered cell, anchors of array formulas) '
        'with the pop order left open; TLC checks ClosureComplete, '
        'LoadedArePopulated and Termination for every pop order, and that '
        'the pinned behaviour (anchors not pushed) violates ClosureComplete. '
        'Every generated (workbook, outputs) is written to .xlsx and built '
        'with from_ranges(*outs).finish(): the outputs must equal Sem(W) and '
        'the fully loaded model; complete() and finish() applied again must '
        'leave nodes, edges and results unchanged; the cells the run '
        'registered (hook H7) must include Needs(W, outs) (CompleteTrace), '
        'also at the return of from_ranges itself, before finish(). One '
        'workbook in four has the same sheet title in two books (all formula '
        'cells requested), one in four sheet titles with asymmetric case '
        'mappings (Stra\u00dfe, \u00b5g); every other workbook carries stale cached '
        'values in the spill cells of its array formulas.',
        'Trusted: TLC; the generator; whole-column references are not '
        'generated.',
        'DESIGN.md 4/C15'),
    'C16': (
        'TLC model checking of Write.tla (writing node by node in every order '
        'gives Out(Sem) at every solved cell, the rest untouched) + replay: '
        'write into fresh books, loaded books and to disk, independent '
        'read-back, compare()',
        'Write.tla writes a solution node by node - single cells and '
        'multi-cell ranges whose rectangles overlap them - in every order and '
        'TLC checks WriteExact and Untouched. Every generated workbook is '
        'calculated without and with supplied inputs (including a populated '
        'cell made blank) and written by the real write() into fresh books, '
        'to disk (re-read with plain openpyxl, an independent reader) and into '
        'the loaded books; every cell of every book is compared with Out(Sem) '
        'at its own sheet and coordinates (errors as text, blanks empty, '
        'logicals not numbers), unsolved cells with the previous content, and '
        'compare() with the model\'s own files must report nothing. One workbook '
        'in three has sheet titles whose upper / lower case mappings are not '
        'mirror images (the file keeps Stra\u00dfe, the model knows STRASSE); a '
        'second solution is written over the same files and compared again.',
        'Trusted: TLC; openpyxl as the independent reader; the generator.',
        'DESIGN.md 4/C16'),
    'C17': (
        'TLC model checking of Lifecycle.tla with two objects (Independent, '
        'HistoryFree over all interleavings up to length 3) + replay of '
        'sampled interleavings on real models and their deepcopy / dill '
        'copies, every live object observed after every step against Sem',
        'Lifecycle.tla with Objects = {model, copy} is checked exhaustively '
        'for interleavings up to length 3 and sampled by simulation to length '
        '6 (calculate with override sets on either object, compile, compiled '
        'call, to_dict, write, deepcopy, dill). Each interleaving is replayed '
        'on a real model built from files or from a dictionary (workbooks '
        'include array formulas whose constant value is padded with #N/A); '
        'after every step every live object is recalculated with fixed probe '
        'inputs and every cell compared with Workbook!Sem(W, ov): a copy is '
        'equivalent to its original, and nothing done to one changes the '
        'other. A compiled function, its deepcopy and its dill round trip '
        'must all return Sem after the original has been called with other '
        'arguments. Independent / HistoryFree are also observed against '
        'isolated references (harness/cpjob.py): 320 (quick) dictionary '
        'models over a broad function vocabulary, a copy (deepcopy / dill / '
        'JSON round trip), calculations interleaved on model and copy with '
        'inputs that are ==-equal values of different types (1 / TRUE / "1"); '
        'every result must equal the same (model, inputs) computed in a '
        'process of its own that has evaluated nothing else. 60 (quick) cyclic '
        'workbooks finished with circular=True are deep-copied and dilled and '
        'calculated side by side with the original (marks included).',
        'Trusted: TLC; generator; dill and copy from the standard environment; '
        'for the isolated references the library itself in a pristine process '
        '(an oracle for independence, not for values).',
        'DESIGN.md 4/C17'),
    'C18': (
        'TLC model checking of ShuntingYard.tla/Grammar.tla (every token '
        'sequence ends acc or rej; acc only if the grammar accepts) and '
        'NumLit.tla (literal automaton = definition) + replay of rejected '
        'prefixes and all enumerated literals + TLC trace validation '
        '(ParseTrace.tla) of fuzzed inputs',
        'Every rejected token sequence of the exhaustive prefix tree must '
        'raise the formula error and nothing else on the real parser; every '
        'numeric literal TLC enumerates (up to 6 characters, leading zeros, '
        'decimals, signed exponents) must be accepted with the value the '
        'spec assigns, in four contexts. Seeded token soups, random printable '
        'strings and single-edit mutations of valid formulas are parsed with '
        'a per-call watchdog: any other exception or a time-out is an escape; '
        'each recorded parse is validated by ParseTrace.tla, so an accepted '
        'text must be accepted by the grammar on the logged tokens with the '
        'same tree (no silent misreading).',
        'Trusted: TLC; Grammar.tla; the abstraction of code tokens to spec '
        'tokens. The lexer itself (characters -> tokens) is only bound '
        'through spellings generated from known token sequences and through '
        'the literal automaton.',
        'DESIGN.md 4/C18'),
    'C02': (
        'TLC model checking of XlOps.tla (operator table + order theorems) '
        '+ exhaustive obligation replay into the code + TLC trace validation '
        'of recorded random events (XlOpsTrace.tla)',
        'TLC checks XlOps.tla over the complete operator x operand-pool cross '
        'product (well-formedness, left-most error, one total order, uniform '
        'coercion) and emits every table entry; each entry is replayed on the '
        'real operators through two spellings (parsed literals, referenced '
        'cells). OperandsKept (action property: the step leaves its operands '
        'unchanged) is replayed too: the compiled operator is called on Ranges '
        'holding the operands and these are read again afterwards. Seeded random decimal/text/logical/blank operands are run '
        'through the real code and every recorded event must be a behaviour '
        'of the spec (XlOpsTrace.tla). Exhaustive over the stated pool; '
        'numeric closeness of transcendental results is not decided.',
        'Trusted: TLC, the transcription of Excel\'s operator rules in '
        'XlOps.tla, alpha/gamma in harness/values.py (numbers compared with '
        'relative tolerance 1e-9).',
        'DESIGN.md 4/C02'),
    'C20': (
        'TLC model checking of Calendar.tla (month machine, 97 200 states), '
        'TimeOfDay.tla, Radix.tla (numeral prefix trees with limb arithmetic) '
        'and Roman.tla + replay of every month / second / numeral on the real '
        'functions + TLC trace validation of sampled numerals and of all '
        'ROMAN results',
        'Calendar.tla walks the months 1900-01 .. 9999-12 with the serial of '
        'each first day (1900 a leap year, serial 60 fictitious): LenOK, '
        'LastSerial = 2958465, WeekdayStep across every month boundary in the '
        '10 numbering modes; for every month state the real YEAR / MONTH / DAY '
        '/ DATE / WEEKDAY are checked on its days (quick: 3 first, 3 last, 2 '
        'sampled; thorough: all 2 958 465), plus day 0 and the domain ends. '
        'All 86 400 seconds through TIME -> HOUR / MINUTE / SECOND. Radix.tla '
        'enumerates all binary numerals and all octal / hex numerals over '
        'boundary digits (two\'s complement by limb arithmetic); each is '
        'checked on X2DEC, DEC2X (places padding / #NUM!), and the cross '
        'conversions; sampled 10-digit numerals are validated by the trace '
        'part; out-of-range decimals give #NUM!. ROMAN(n, form) for all '
        '4000 x 5 is validated by Roman.tla (Val(result) = n, form 0 = '
        'Classic(n)) and ARABIC inverts it on the code.',
        'Trusted: TLC; for ROMAN/ARABIC out of domain any error value is '
        'accepted (Excel documents #VALUE!).',
        'DESIGN.md 4/C20'),
    'C19': (
        'TLC model checking of Lookup.tla (ideal Match vs the linear scans of '
        'xmatch, wild cards, typed criteria) over all key vectors of the pool '
        '+ replay of every case on MATCH / LOOKUP / VLOOKUP / HLOOKUP / '
        'INDEX(MATCH) / INDEX / COUNTIF / SUMIF / AVERAGEIF',
        'Lookup.tla: for every strictly ascending / descending numeric or text '
        'vector of length <= 4 (also with one element of another type '
        'inserted), every mixed vector with duplicates of length <= 3 (exact '
        'mode) and 17 keys (inside / outside / between, other type, wild '
        'cards, escaped wild cards) TLC checks that the transcribed scans of '
        'xmatch with their early exits equal the definition '
        '(ScanRefinesMatch), and CriteriaPartition for the six operators. '
        'Each of the about 30 900 cases is an obligation replayed on the real '
        'functions through Cell: MATCH on an array literal (both '
        'orientations) and on a referenced range with blank cells, VLOOKUP / '
        'HLOOKUP / LOOKUP / INDEX(MATCH) on tables built around the key line, '
        'INDEX on all shapes <= 6x6 (rows / columns 1..7), VLOOKUP / HLOOKUP '
        'on tables of every shape <= 6x6 with every key inside / between / '
        'outside and every column up to one past the table (TableRow), '
        'COUNTIF / SUMIF / '
        'AVERAGEIF with the criterion written as users write it; SUMIF over '
        'powers of ten identifies exactly which positions were selected. '
        'Bounded by the pool; quick replays a 9 000-case sample.',
        'Trusted: TLC; the Match / Holds definitions as the statement of '
        'Excel\'s rules. "<>" against an element of another type is accepted '
        'either way (Excel counts it, the property compares within the type). '
        'INDEX with row / column 0 is modelled but not replayed (the property '
        'does not state it; the library returns the first element).',
        'DESIGN.md 4/C19'),
    'C12': (
        'TLC model checking of Fns.tla over FnDef.tla (the listed functions '
        'written from their Excel definitions on exact rationals and code '
        'sequences; 25 laws relating them) + replay of every case on the real '
        'functions through Cell',
        'FnDef.tla defines the 70 listed functions; Fns.tla explores four '
        'families of cases (about 19 100 in all): aggregations over argument lists '
        'that mix directly typed values, referenced ranges with blanks / text '
        '/ logicals / errors and array literals; logical and IS functions over '
        'every value kind; element-wise mathematics (rounding of halves and '
        'exact decimals such as 1.15, 2.675, 1.005 with digits -3..3, the sign '
        'cases of MOD / CEILING / FLOOR / EVEN / ODD, domain errors); text '
        'functions (positions 0, negative and past the end, optional '
        'arguments, wild cards, coercion of numbers / logicals / blanks); '
        'element-wise functions over row / column / square arrays and their '
        'broadcasts (LiftFn, LiftShape). TLC '
        'checks in every state the laws OrderInvariant, AggBracket, KthDual, '
        'RoundBracket, ModLaw, CeilFloor, EvenOdd, DeMorgan, XorParity, '
        'IfsIsNestedIf, InfoPartition, LeftRight, MidLaw, ReplaceLaw, FindLaw, '
        'SearchGeneralisesFind, SubstituteLaw, TextJoinLaw ... Each state is '
        'an obligation evaluated by Cell with the referenced ranges supplied '
        'as inputs and compared with the defined value (numbers to 1e-9; '
        'irrational results against double-precision evaluation of the exact '
        'arguments the specification names). Bounded by the pools. Functions '
        'outside the list (FnDef: MAXA .. MROUND; FnMore.tla: percentiles, '
        'quartiles, CEILING.MATH .. ISO.CEILING, FACTDOUBLE, MMULT, MDETERM, '
        'MUNIT, TRANSPOSE with their own laws) are model-checked and replayed '
        'for information only.',
        'Trusted: TLC; FnDef.tla as the statement of Excel\'s definitions '
        '(points where Excel itself is not settled are classes: which of two '
        'errors wins, FIND of the empty text just past the end, FLOOR(0,0)); '
        'Python\'s math module for irrational values.',
        'DESIGN.md 4/C12'),
    'C11': (
        'TLC model checking of Calls.tla (the function table with Excel\'s '
        'argument counts and error-consumption modes; Total and ErrorKept '
        'over every admitted answer of every call class) + replay of every '
        '(function, argument tuple) on the real function table + TLC trace '
        'validation (CallsTrace.tla) of the recorded answers',
        'Calls.tla lists all 205 callable names of the table with their '
        'admissible argument counts and which arguments are consumed (all / '
        'listed positions for look-ups, IFS, SWITCH / the IF rule / none for '
        'the error-handling and inspection functions). TLC enumerates per '
        'signature class every tuple of up to three argument descriptors over '
        '21 kinds (numbers, text, numeric text, date text inside and beyond the calendar, empty text, logicals, blank '
        'reference, #N/A, #DIV/0!, referenced row / column / row holding an '
        'error / mixed row, array literals with and without an error) and all '
        'pairs of positions for longer calls, and checks Total / ErrorKept on '
        'every answer Allowed admits. Each call is made on the real table '
        '(formula compiled by the real parser, ranges supplied; raw result so '
        'arrays are seen whole; one call in four also through Cell and a '
        'Dispatcher) and its answer class must be in Allowed; the recorded '
        'calls are then validated by CallsTrace.tla, which looks the function '
        'up in FnTable itself. The harness cross-checks the table against '
        'get_functions(). Quick makes up to 400 calls per function (about '
        '62 000), thorough all of the space (about 500 000).',
        'Trusted: TLC; the arities and consumption modes written in '
        'Calls.tla (Excel\'s documented signatures); the classification of '
        'python results into answer classes (harness/values.py alpha).',
        'DESIGN.md 4/C11'),
}

# what the later batches of seeded changes added to each check (appended to `text`)
ADDENDA = {
    'C01': ' Also: SY_assoc.cfg (parenthesised ^ / - to length 7, the logical literal TRUE in '
           'every letter case) and SY_str.cfg (string literals inside calls and array literals).',
    'C02': ' Also: -inf / complex results, text left of an error.',
    'C04': ' Also: sheet titles IT\'S and TRUE, the same written [n]Sheet!ref under five link '
           'tables in one process, identifiers read back through the parser too.',
    'C05': ' Also: arrays with blank elements; the compiled lifted operator is called on Ranges that '
           'are read again afterwards (operands kept).',
    'C06': ' Also: after every operation both operands are read again and must be unchanged.',
    'C07': ' Also: the inverse side of Assemble.tla (a value supplied through a requested rectangle '
           'reaches every populated cell inside), 1 000 layouts.',
    'C09': ' Also: numeric literals (every NumLit literal and long decimals) exported and re-read '
           'to the same double; the blanks an export holds against the blank nodes Assemble.tla '
           'allows; SY_assoc / SY_str sequences.',
    'C10': ' Also: one-alternative guards (IFERROR, two-argument IF), strongly connected '
           'components reached from earlier trees.',
    'C12': ' Also: all cases of one function run in one process in shuffled order, whole numbers '
           'typed 2 and 2.0 / supplied as int and float (memos keyed by == show).',
    'C13': ' Also: numpy\'s generator positioned at the smallest and largest draws '
           '(RAND in [0, 1), RANDBETWEEN within bounds for every state).',
    'C14': ' Also: dotted unknown function names ending in an implemented name, absent workbooks '
           'whose names are not in capitals, unreadable (non-zip) files.',
    'C16': ' Also: compare() without a solution after the model was used with other inputs / outputs.',
    'C17': ' Also: model, deep copy and dill copy calculated with the same inputs (whole sparse '
           'ranges included) and compared cell by cell, no expected values involved.',
    'C18': ' Also: named reference forms (ANCHORARRAY, INDIRECT, last cells, odd sheet titles), '
           'one spelling used as function and operand, mis-punctuated error literals in the soup.',
    'C19': ' Also: adjacent wild cards against texts of every length, blanks and the text '
           '"empty", whole numbers of cells as int and as float.',
}

REASON_PENDING = 'check not built yet in this round (planned, see DESIGN.md section 8)'


def build():
    repo_commits = subprocess.run(
        ['git', '-C', '/repo', 'log', '--format=%H %s'],
        stdout=subprocess.PIPE).stdout.decode().splitlines()
    hooks = [l.split()[0] for l in repo_commits if ' verif:' in l]
    checks = []
    for pid in ALL:
        if pid not in CLAIMED:
            continue
        tech, text, note, ref = CLAIMED[pid]
        text = text + ADDENDA.get(pid, '')
        checks.append({
            'property_id': pid,
            'quick_cmd': 'bin/check %s --tier quick' % pid,
            'thorough_cmd': 'bin/check %s --tier thorough' % pid,
            'evidence_file': '/verif/evidence/%s.json' % pid,
            'replay_cmd_template': 'bin/check %s --replay {path}' % pid,
            'engine': 'tlc+replay',
            'level_claimed': {'category': 'model_checking', 'text': text,
                              'design_ref': ref},
            'level_note': note,
            'technique': tech,
        })
    man = {
        'version': 1,
        'setup_cmd': 'sh bin/setup',
        'hooks': {
            'guard': 'FORMULAS_VERIF',
            'enable': 'FORMULAS_VERIF=1 in the environment before `import '
                      'formulas` (pure Python, no build step; the checks '
                      'import /repo\'s working tree through sys.path)',
            'baseline_off_cmd': 'cd /repo && /venv/bin/python -m pytest -ra -q '
                                '-p no:cacheprovider --timeout=900 '
                                '--continue-on-collection-errors',
            'source_commits': hooks,
            'add_only': True,
        },
        'engines': [{
            'name': 'tlc+replay', 'path': '/verif/harness',
            'serves_properties': sorted(CLAIMED),
            'kind_free_text': 'TLA+ specifications in /verif/spec checked by '
                              'TLC; obligations/behaviours emitted by TLC are '
                              'replayed into the real library and traces '
                              'recorded from the real library (guarded hooks) '
                              'are validated by TLC trace specifications',
        }],
        'checks': checks,
        'not_applicable': [
            {'property_id': p, 'reason': REASON_PENDING}
            for p in ALL if p not in CLAIMED],
        'notes': 'See DESIGN.md. Exit codes: 0 held, 1 violation (VIOLATION '
                 'line), 2 machinery failure. Known findings: '
                 'known_findings.jsonl.',
    }
    with open(os.path.join(VERIF, 'MANIFEST.json'), 'w') as f:
        json.dump(man, f, indent=1)
    return man


if __name__ == '__main__':
    m = build()
    print('claimed:', [c['property_id'] for c in m['checks']])
