"""Thin drivers around the real library (always imported through bind_repo)."""
import signal
from .common import bind_repo

_f = None


def F():
    global _f
    if _f is None:
        _f = bind_repo()
    return _f


class Timeout(Exception):
    pass


def _alarm(signum, frame):
    raise Timeout()


def with_timeout(fn, secs, *a, **kw):
    """fn(*a, **kw) under a wall-clock watchdog.  The clock also runs while the machine
    stalls (sixteen workers, garbage collection): a first expiry is tried again with six
    times the limit, so that only a call that really does not return is reported."""
    try:
        return _with_timeout(fn, secs, *a, **kw)
    except Timeout:
        return _with_timeout(fn, secs * 6, *a, **kw)


def _with_timeout(fn, secs, *a, **kw):
    old = signal.signal(signal.SIGALRM, _alarm)
    signal.setitimer(signal.ITIMER_REAL, secs)
    try:
        return fn(*a, **kw)
    finally:
        signal.setitimer(signal.ITIMER_REAL, 0)
        signal.signal(signal.SIGALRM, old)


def observe(fn, *a, **kw):
    """('ok', value) or ('raise', 'ExcType: msg')."""
    try:
        return 'ok', fn(*a, **kw)
    except Timeout:
        return 'raise', 'Timeout'
    except BaseException as ex:  # noqa
        if isinstance(ex, (KeyboardInterrupt, SystemExit)):
            raise
        inner = getattr(ex, 'ex', None)
        name = type(ex).__name__
        if inner is not None:
            name += '/' + type(inner).__name__
        return 'raise', '%s: %s' % (name, str(ex)[:200])


_cell_cache = {}


def cell_eval(ref, formula, inputs=None, cache=True):
    """Evaluate one formula as cell `ref` with `inputs` (node -> python value)
    the way the repository's own cell tests do."""
    F()
    import schedula as sh
    from formulas.cell import Cell
    key = (ref, formula)
    ent = _cell_cache.get(key) if cache else None
    if ent is None:
        dsp = sh.Dispatcher()
        cell = Cell(ref, formula).compile()
        if not cell.add(dsp):
            raise RuntimeError('cell.add returned nothing')
        ent = (dsp, cell.output)
        if cache:
            if len(_cell_cache) > 5000:
                _cell_cache.clear()
            _cell_cache[key] = ent
    dsp, out = ent
    sol = dsp(dict(inputs or {}))
    return sol[out]


_func_cache = {}


def operands_kept(formula, inputs):
    """Call the compiled formula on Ranges holding `inputs` (name -> python value) and
    say which of them no longer hold what they were given (XlOps!OperandsKept)."""
    f = F()
    import numpy as np
    from formulas.ranges import Ranges
    func = _func_cache.get(formula)
    if func is None:
        if len(_func_cache) > 2000:
            _func_cache.clear()
        func = _func_cache[formula] = f.Parser().ast(formula)[1].compile()
    given = {}
    args = []
    for name in func.inputs:
        v = inputs[name]
        rows = v if isinstance(v, list) else [[v]]
        arr = np.empty((len(rows), len(rows[0])), object)
        for i, row in enumerate(rows):
            for j, x in enumerate(row):
                arr[i, j] = x
        rg = Ranges().push(name, arr)
        given[name] = (rg, rows)
        args.append(rg)
    func(*args)
    changed = []
    for name, (rg, rows) in given.items():
        now = rg.value
        for i, row in enumerate(rows):
            for j, v in enumerate(row):
                x = now[i, j]
                if not (x is v or (type(x) is type(v) and x == v)):
                    changed.append(('%s[%d,%d]' % (name, i, j), repr(v), repr(x)))
    return changed


def formula_eval(formula):
    """Parser().ast(formula)[1].compile()() - the literal route."""
    f = F()
    func = f.Parser().ast(formula)[1].compile()
    return func()


def parse(formula):
    f = F()
    return f.Parser().ast(formula)
