"""Thin drivers around the real library (always imported through bind_repo)."""
import signal
from .common import bind_repo

_f = None


def F():
    global _f
    if _f is None:
        _f = bind_repo()
    return _f


class Timeout(Exception):
    pass


def _alarm(signum, frame):
    raise Timeout()


def with_timeout(fn, secs, *a, **kw):
    old = signal.signal(signal.SIGALRM, _alarm)
    signal.setitimer(signal.ITIMER_REAL, secs)
    try:
        return fn(*a, **kw)
    finally:
        signal.setitimer(signal.ITIMER_REAL, 0)
        signal.signal(signal.SIGALRM, old)


def observe(fn, *a, **kw):
    """('ok', value) or ('raise', 'ExcType: msg')."""
    try:
        return 'ok', fn(*a, **kw)
    except Timeout:
        return 'raise', 'Timeout'
    except BaseException as ex:  # noqa
        if isinstance(ex, (KeyboardInterrupt, SystemExit)):
            raise
        inner = getattr(ex, 'ex', None)
        name = type(ex).__name__
        if inner is not None:
            name += '/' + type(inner).__name__
        return 'raise', '%s: %s' % (name, str(ex)[:200])


_cell_cache = {}


def cell_eval(ref, formula, inputs=None, cache=True):
    """Evaluate one formula as cell `ref` with `inputs` (node -> python value)
    the way the repository's own cell tests do."""
    F()
    import schedula as sh
    from formulas.cell import Cell
    key = (ref, formula)
    ent = _cell_cache.get(key) if cache else None
    if ent is None:
        dsp = sh.Dispatcher()
        cell = Cell(ref, formula).compile()
        if not cell.add(dsp):
            raise RuntimeError('cell.add returned nothing')
        ent = (dsp, cell.output)
        if cache:
            if len(_cell_cache) > 5000:
                _cell_cache.clear()
            _cell_cache[key] = ent
    dsp, out = ent
    sol = dsp(dict(inputs or {}))
    return sol[out]


_func_cache = {}


def operands_kept(formula, inputs):
    """Call the compiled formula on Ranges holding `inputs` (name -> python value) and
    say which of them no longer hold what they were given (XlOps!OperandsKept)."""
    f = F()
    import numpy as np
    from formulas.ranges import Ranges
    func = _func_cache.get(formula)
    if func is None:
        if len(_func_cache) > 2000:
            _func_cache.clear()
        func = _func_cache[formula] = f.Parser().ast(formula)[1].compile()
    given = {}
    args = []
    for name in func.inputs:
        v = inputs[name]
        if isinstance(v, list):
            v = v[0][0]
        arr = np.empty((1, 1), object)
        arr[0, 0] = v
        rg = Ranges().push(name, arr)
        given[name] = (rg, v)
        args.append(rg)
    func(*args)
    changed = []
    for name, (rg, v) in given.items():
        now = rg.value[0, 0]
        if not (now is v or (type(now) is type(v) and now == v)):
            changed.append((name, repr(v), repr(now)))
    return changed


def formula_eval(formula):
    """Parser().ast(formula)[1].compile()() - the literal route."""
    f = F()
    func = f.Parser().ast(formula)[1].compile()
    return func()


def parse(formula):
    f = F()
    return f.Parser().ast(formula)
