"""Worker: history dependence of calculate().  python -m harness.hdjob <job.json> <out.json>

Lifecycle!HistoryFree: what a calculation returns depends on the model and the
supplied inputs only.  For each seeded workbook a sequence of 2-4 calculations
with different supplied inputs (cells, unpopulated cells of referenced ranges,
whole ranges - sparse ones preferred) runs on ONE model; the last one is
repeated on a fresh model and the two solutions must be equal cell by cell.
No expected value is involved, so deviations of calculate() that are recorded
elsewhere (values supplied to ranges with unpopulated members) cannot hide a
dependence on history.
"""
import sys
import json
import random
import shutil
import tempfile


def make_inputs(g, rnd, L, G, V):
    rects = [e for e in L.referenced_rects(g)
             if not any(x in g.reserved for row in g.rect_ids(e) for x in row)
             and len([x for row in g.rect_ids(e) for x in row]) <= 8]
    blanks = sorted({x for e in rects for row in g.rect_ids(e) for x in row if x not in g.cells})
    consts = [i for i, c in g.cells.items() if c['k'] == 'c']
    # sparse rectangles first
    rects.sort(key=lambda e: -len([x for row in g.rect_ids(e) for x in row if x not in g.cells]))
    r = rnd.random()
    if rects and r < 0.45:
        e = rects[0] if rnd.random() < 0.6 else rnd.choice(rects)
        rows = [[V.pyval(G.rnd_const(rnd, 'n')) for _ in row] for row in g.rect_ids(e)]
        return {G.rect_node_name(*e[1:]): rows}, [x for row in g.rect_ids(e) for x in row]
    out, ids = {}, []
    for _ in range(rnd.randint(1, 2)):
        pool = blanks if (blanks and rnd.random() < 0.5) else consts
        if not pool:
            continue
        i = rnd.choice(pool)
        key = G.node_name(i)
        if rnd.random() < 0.5:
            # ... through a defined name of that cell, when there is one
            for n, e in sorted(g.names.items()):
                if e[0] == 'ref' and e[1] == i:
                    key = "'[%s]'!%s" % (G.name_text(g, e)[0], n)
        out[key] = V.pyval(G.rnd_const(rnd, 'n'))
        ids.append(i)
    return out, ids


def main():
    from . import impl, wbgen as G, wbrun as R, lifecycle as L, values as V
    impl.F()
    job = json.load(open(sys.argv[1]))
    out = []
    for it in job['items']:
        s = it['seed']
        g = G.make(s, **job['gen'])
        rnd = random.Random(s * 97 + 3)
        seq = [make_inputs(g, rnd, L, G, V) for _ in range(rnd.randint(2, 4))]
        rec = {'seed': s, 'path': it['path'], 'problems': [], 'n': 0,
               'seq': [{k: V.show(V.alpha(v)) if not isinstance(v, list) else str(v) for k, v in inp.items()}
                       for inp, _ in seq]}
        tmp = []

        def build():
            if it['path'] == 'dict':
                return R.build_dict(g)
            d = tempfile.mkdtemp(prefix='verif-hd-')
            tmp.append(d)
            return R.build_files(g, d)
        try:
            used = build()
            forms = [i for i in g.order if g.cells[i]['k'] == 'f']
            consts = [i for i in g.order if g.cells[i]['k'] == 'c']
            for inp, _ in seq[:-1]:
                try:
                    if forms and consts and rnd.random() < 0.4:
                        # an earlier *compilation* (some constant as input, the last formulas as
                        # outputs) must leave no trace either
                        used.compile(inputs=[G.node_name(rnd.choice(consts))],
                                     outputs=[G.node_name(i) for i in forms[-2:]])
                        rec['seq'].append('compile')
                    used.calculate(inputs=inp) if inp else used.calculate()
                except BaseException as ex:  # noqa
                    if isinstance(ex, (KeyboardInterrupt, SystemExit)):
                        raise
            final, fids = seq[-1]
            sol_used = used.calculate(inputs=final) if final else used.calculate()
            fresh = build()
            sol_fresh = fresh.calculate(inputs=final) if final else fresh.calculate()
            for i in sorted(set(g.cells) | set(fids)):
                a, b = R.node_value(sol_used, g, i), R.node_value(sol_fresh, g, i)
                rec['n'] += 1
                if (a is None) != (b is None) or (a is not None and V.show(a) != V.show(b)):
                    rec['problems'].append({'cell': i, 'after_history': V.show(a) if a else None,
                                            'fresh_model': V.show(b) if b else None})
        except BaseException as ex:  # noqa
            if isinstance(ex, (KeyboardInterrupt, SystemExit)):
                raise
            rec['exc'] = '%s: %s' % (type(ex).__name__, str(ex)[:300])
        finally:
            for d in tmp:
                shutil.rmtree(d, ignore_errors=True)
        out.append(rec)
    json.dump(out, open(sys.argv[2], 'w'))


if __name__ == '__main__':
    main()
