"""Worker: replays life-cycle histories.  python -m harness.lcjob <job.json> <out.json>
job = {"gen": kw, "sem_file": path, "nov": n, "items": [{"seed", "idx", "path",
       "hist", "use_names", "observe": [...], "trace": bool}]}
sem_file: JSON list; entry idx*(nov+1)+j = Sem(W_idx, ov_j)."""
import sys
import json
import random


def main():
    from . import impl, wbgen as G, lifecycle as L, wbjob
    impl.F()
    from formulas import _verif
    job = json.load(open(sys.argv[1]))
    sem_all = json.load(open(job['sem_file']))
    nov = job['nov']
    out = []
    for it in job['items']:
        g = G.make(it['seed'], **job['gen'])
        impl._cell_cache.clear()
        ovsets = L.make_ovsets(g, random.Random(it['seed'] * 31 + 5), nov)
        sem = [sem_all[it['idx'] * (nov + 1) + j] for j in range(nov + 1)]
        ex = L.Exec(g, it['path'], ovsets, sem)
        rec = {'seed': it['seed'], 'idx': it['idx'], 'path': it['path'], 'hist': it['hist'],
               'use_names': it.get('use_names', False),
               'problems': [], 'observations': 0, 'traces': [], 'exc': None}
        try:
            ex.build()
            if it.get('trace'):
                # run op by op so that each calculation's events can be cut out
                for step, op in enumerate(it['hist'], 1):
                    _verif.drain()
                    ex.run([op], it.get('use_names', False), tuple(it.get('observe', ('calc', 'fcall'))))
                    evs = _verif.drain()
                    if op['k'] == 'calc':
                        rec['traces'].append({
                            'w': it['idx'] * (nov + 1) + op['j'] + 1,
                            'events': wbjob.build_trace(g, evs),
                            'total': not op.get('outs'), 'step': step})
                for p in ex.problems:
                    pass
            else:
                ex.run(it['hist'], it.get('use_names', False),
                       tuple(it.get('observe', ('calc', 'fcall'))), it.get('probe_j'))
                if it.get('probe_j') is not None and it['hist']:
                    ex.probe(len(it['hist']), it['hist'][-1], it['probe_j'])
            rec['problems'] = ex.problems
            rec['observations'] = ex.observations
        except BaseException as e:  # noqa
            if isinstance(e, (KeyboardInterrupt, SystemExit)):
                raise
            rec['exc'] = '%s: %s' % (type(e).__name__, str(e)[:300])
        finally:
            ex.close()
        out.append(rec)
    json.dump(out, open(sys.argv[2], 'w'))


if __name__ == '__main__':
    main()
