"""Run TLC on a spec of /verif/spec and parse what it reports."""
import os
import re
import json
import time
import shutil
import subprocess
from .common import SPEC, MachineryError, workdir, NCPU

JAR = '/opt/veriftools/tla/tla2tools.jar:/opt/veriftools/tla/CommunityModules-deps.jar'

_re_states = re.compile(
    r'(\d+) states generated, (\d+) distinct states found, (\d+) states left')
_re_cov = re.compile(r'^<(\w+) line (\d+), col \d+ to line \d+, col \d+ of module (\w+)>: (\d+):(\d+)')


class TLCResult(dict):
    pass


def run_tlc(module, cfg, env=None, workers=None, timeout=1800, simulate=None,
            depth=None, seed=None, coverage=False, deadlock=True, extra=(),
            heap='6g', dfs=False, allow_error=False):
    """Run TLC with cwd=/verif/spec.  Returns TLCResult with keys:
    ok, distinct, generated, out (stdout text), error (first error block),
    wall_s, coverage {action: count}.  Raises MachineryError when TLC itself
    fails (parse error, exception, timeout) unless allow_error."""
    meta = workdir('tlc')
    cmd = ['java', '-XX:+UseParallelGC', '-Xmx' + heap]
    if dfs:
        cmd.append('-Dtlc2.tool.queue.IStateQueue=StateDeque')
    cmd += ['-cp', JAR, 'tlc2.TLC', '-metadir', meta, '-noGenerateSpecTE',
            '-workers', str(workers or NCPU), '-config', cfg]
    if simulate:
        cmd += ['-simulate', simulate]
    if depth:
        cmd += ['-depth', str(depth)]
    if seed is not None:
        cmd += ['-seed', str(seed)]
    if coverage:
        cmd += ['-coverage', '1']
    if not deadlock:
        cmd += ['-deadlock']
    cmd += list(extra) + [module]
    e = dict(os.environ)
    e.pop('JAVA_TOOL_OPTIONS', None)
    e.update({k: str(v) for k, v in (env or {}).items()})
    t0 = time.time()
    try:
        p = subprocess.run(cmd, cwd=SPEC, env=e, stdout=subprocess.PIPE,
                           stderr=subprocess.STDOUT, timeout=timeout)
        out = p.stdout.decode('utf-8', 'replace')
        rc = p.returncode
    except subprocess.TimeoutExpired as ex:
        subprocess.run(['pkill', '-f', meta], check=False)
        shutil.rmtree(meta, ignore_errors=True)
        raise MachineryError('TLC timeout on %s/%s' % (module, cfg))
    finally:
        shutil.rmtree(meta, ignore_errors=True)
    res = TLCResult(out=out, rc=rc, wall_s=time.time() - t0, module=module,
                    cfg=cfg)
    m = None
    for m in _re_states.finditer(out):
        pass
    if m:
        res['generated'], res['distinct'] = int(m.group(1)), int(m.group(2))
    else:
        res['generated'] = res['distinct'] = 0
    res['ok'] = ('Model checking completed. No error has been found.' in out
                 or (simulate and 'Error:' not in out))
    err = None
    if 'Error:' in out:
        i = out.index('Error:')
        err = out[i:i + 3000]
    res['error'] = err
    cov = {}
    for line in out.splitlines():
        mm = _re_cov.match(line.strip())
        if mm:
            cov[mm.group(1)] = cov.get(mm.group(1), 0) + int(mm.group(5))
    res['coverage'] = cov or None
    if not res['ok'] and not allow_error:
        raise MachineryError('TLC failed on %s/%s:\n%s' % (
            module, cfg, (err or out[-3000:])))
    return res


def invariant_violated(res):
    """Name of the violated invariant/property, or None."""
    m = re.search(r'Invariant (\w+) is violated', res['out'])
    if m:
        return m.group(1)
    m = re.search(r'Action property (\w+) is violated', res['out'])
    if m:
        return m.group(1)
    m = re.search(r'Temporal properties were violated', res['out'])
    if m:
        return 'temporal'
    return None


def read_ndjson(path):
    out = []
    with open(path) as f:
        for line in f:
            line = line.strip()
            if line:
                out.append(json.loads(line))
    return out


_re_obl = re.compile(r'^"OBL (.*)"$')


def parse_obl(out):
    """PrintT("OBL " \\o ToJson(x)) lines -> list of python objects."""
    res = []
    for line in out.splitlines():
        line = line.strip()
        if line.startswith('"OBL '):
            try:
                s = json.loads(line)  # the TLA+ string literal is JSON-like
            except ValueError:
                raise MachineryError('unparsable OBL line: %r' % line[:200])
            res.append(json.loads(s[4:]))
    return res
