"""Seeded random formula trees over the whole vocabulary, and their text."""
import random

BIN = ['=', '<', '>', '<=', '>=', '<>', '&', '+', '-', '*', '/', '^']
PREC = {'=': 1, '<': 1, '>': 1, '<=': 1, '>=': 1, '<>': 1, '&': 2, '+': 3,
        '-': 3, '*': 4, '/': 4, '^': 5}
FUNCS = [('SUM', 0, 4), ('IF', 1, 3), ('MAX', 1, 3), ('MIN', 1, 3),
         ('AND', 1, 3), ('OR', 1, 3), ('CONCATENATE', 1, 4), ('ABS', 1, 1),
         ('ROUND', 2, 2), ('MOD', 2, 2), ('LEN', 1, 1), ('LEFT', 1, 2),
         ('IFERROR', 2, 2), ('NOT', 1, 1), ('PI', 0, 0), ('AVERAGE', 1, 3),
         ('COUNT', 1, 3), ('POWER', 2, 2), ('INT', 1, 1), ('ISERROR', 1, 1)]
NUMS = ['0', '1', '2', '3', '7', '10', '007', '0.5', '1.25', '.5', '12.0',
        '1E+2', '2.5E-1', '3E+0', '100', '42']
STRS = ['""', '"a"', '"A b"', '"x,y"', '"(z"', '"q)"', '"say ""hi"""',
        '"{1;2}"', '"1+2"', '"  "']
BOOLS = ['TRUE', 'FALSE', 'true', 'False']
ERRS = ['#N/A', '#DIV/0!', '#VALUE!', '#REF!', '#NAME?', '#NUM!', '#NULL!']
REFS = ['A1', '$B$2', 'c3', 'Sheet1!D4', "'My Sheet'!E5", 'A1:B2', '$C$1:$D$3',
        'R2C3', 'F:F', '2:3', 'Sheet2!A1:A3']


def rnd_tree(rnd, depth, allow_refs=True, allow_arrays=True):
    r = rnd.random()
    if depth <= 0 or r < 0.22:
        return rnd_leaf(rnd, allow_refs)
    if r < 0.60:
        return ('bin', rnd.choice(BIN), rnd_tree(rnd, depth - 1, allow_refs, allow_arrays),
                rnd_tree(rnd, depth - 1, allow_refs, allow_arrays))
    if r < 0.70:
        return ('un', rnd.choice(['u-', 'u+']),
                rnd_tree(rnd, depth - 1, allow_refs, allow_arrays))
    if r < 0.76:
        return ('un', '%', rnd_tree(rnd, depth - 1, allow_refs, allow_arrays))
    if r < 0.94 or not allow_arrays:
        name, lo, hi = rnd.choice(FUNCS)
        n = rnd.randint(lo, hi)
        args = []
        for _ in range(n):
            if rnd.random() < 0.08:
                args.append(('empty',))
            else:
                args.append(rnd_tree(rnd, depth - 1, allow_refs, allow_arrays))
        return ('fn', name, tuple(args))
    rows, cols = rnd.randint(1, 3), rnd.randint(1, 3)
    return ('arr', tuple(tuple(rnd_const(rnd) for _ in range(cols))
                         for _ in range(rows)))


def rnd_const(rnd):
    r = rnd.random()
    if r < 0.5:
        s = rnd.choice(NUMS)
        return ('leaf', ('-' + s) if rnd.random() < 0.2 else s)
    if r < 0.75:
        return ('leaf', rnd.choice(STRS))
    if r < 0.9:
        return ('leaf', rnd.choice(BOOLS))
    return ('leaf', rnd.choice(ERRS))


def rnd_leaf(rnd, allow_refs):
    r = rnd.random()
    if r < 0.45:
        return ('leaf', rnd.choice(NUMS))
    if r < 0.60:
        return ('leaf', rnd.choice(STRS))
    if r < 0.68:
        return ('leaf', rnd.choice(BOOLS))
    if r < 0.76 or not allow_refs:
        return ('leaf', rnd.choice(ERRS))
    return ('leaf', rnd.choice(REFS))


def depth(t):
    k = t[0]
    if k in ('leaf', 'empty', 'arr'):
        return 0
    if k == 'un':
        return 1 + depth(t[2])
    if k == 'bin':
        return 1 + max(depth(t[2]), depth(t[3]))
    return 1 + max([depth(a) for a in t[2]] + [0])


def text(t, rnd=None, style='min'):
    """Formula text with minimal (style 'min') or redundant ('full')
    parentheses; white space and case varied when rnd is given."""
    return '=' + _txt(t, 0, 'none', rnd, style)


def _sp(rnd):
    if rnd is None:
        return ''
    return rnd.choice(['', '', ' ', '  '])


def _txt(t, ctx_prec, side, rnd, style):
    k = t[0]
    if k == 'leaf':
        s = t[1]
        return '(%s)' % s if style == 'full' and rnd and rnd.random() < 0.3 else s
    if k == 'empty':
        return ''
    if k == 'arr':
        return '{%s}' % ';'.join(','.join(c[1] for c in row) for row in t[1])
    if k == 'fn':
        name = t[1]
        if rnd is not None and rnd.random() < 0.3:
            name = name.lower()
        return '%s(%s%s)' % (name, _sp(rnd), (',' + _sp(rnd)).join(
            _txt(a, 0, 'none', rnd, style) for a in t[2]))
    if k == 'un':
        if t[1] == '%':
            # postfix binds tighter than everything but the unary sign
            inner = _txt(t[2], 6, 'left', rnd, style)
            if t[2][0] == 'bin':
                inner = '(%s)' % _txt(t[2], 0, 'none', rnd, style)
            return inner + '%'
        inner = t[2]
        s = _txt(inner, 7, 'right', rnd, style)
        if inner[0] == 'bin' or (inner[0] == 'un') or \
                (inner[0] == 'leaf' and inner[1].startswith('-')):
            s = '(%s)' % _txt(inner, 0, 'none', rnd, style)
        r = t[1][1] + s
        # a signed operand next to a tighter operator needs parentheses only
        # when it is the left operand of ^ (unary binds tighter) - never
        return r
    op, l, r = t[1], t[2], t[3]
    p = PREC[op]
    ls = _txt(l, p, 'left', rnd, style)
    rs = _txt(r, p, 'right', rnd, style)
    if l[0] == 'bin' and PREC[l[1]] < p:
        ls = '(%s)' % _txt(l, 0, 'none', rnd, style)
    if l[0] == 'leaf' and l[1].startswith('-') and False:
        ls = '(%s)' % ls
    if r[0] == 'bin' and PREC[r[1]] <= p:
        rs = '(%s)' % _txt(r, 0, 'none', rnd, style)
    s = '%s%s%s%s%s' % (ls, _sp(rnd), op, _sp(rnd), rs)
    if style == 'full':
        s = '(%s)' % s
    return s
