"""bin/check <ID> --replay <file>: re-run the check with the seed and tier recorded in a
replay file (checks are deterministic in them) and say whether the recorded violation
shows again.  Exit 1 + VIOLATION line when it does, 0 when it does not, 2 on failure."""
import os
import sys
import json
import shutil
import tempfile
import subprocess


def main():
    pid, path = sys.argv[1], sys.argv[2]
    rec = json.load(open(path))
    if rec.get('property') != pid:
        print('replay file is for property %s' % rec.get('property'))
        return 2
    tmp = tempfile.mkdtemp(prefix='verif-replay-')
    try:
        env = dict(os.environ)
        env.pop('VERIF_REPLAY', None)
        env.update({'VERIF_SEED': str(rec.get('seed', 0)), 'VERIF_TIER': rec.get('tier', 'quick'),
                    'VERIF_EVIDENCE_DIR': tmp, 'VERIF_DUMP': os.path.join(tmp, 'dump.jsonl')})
        p = subprocess.run([sys.executable, '-m', 'harness.checks.' + pid.lower()], env=env,
                           stdout=subprocess.PIPE, stderr=subprocess.STDOUT)
        if p.returncode not in (0, 1):
            sys.stdout.write(p.stdout.decode()[-2000:])
            return 2
        want = json.dumps(rec['sig'], sort_keys=True, default=str)
        again = []
        if os.path.exists(env['VERIF_DUMP']):
            for line in open(env['VERIF_DUMP']):
                v = json.loads(line)
                if json.dumps(v['sig'], sort_keys=True, default=str) == want:
                    again.append(v)
        print('recorded: %s' % json.dumps(rec['sig'], default=str)[:400])
        if again:
            print('reproduced: %s' % json.dumps(again[0]['detail'], default=str)[:1500])
            print('VIOLATION property=%s replay=%s' % (pid, path))
            return 1
        print('not reproduced on the current tree (seed %s, tier %s)' % (env['VERIF_SEED'], env['VERIF_TIER']))
        return 0
    finally:
        shutil.rmtree(tmp, ignore_errors=True)


if __name__ == '__main__':
    sys.exit(main())
