"""Signatures of the recorded C12 deviations (see known_findings.jsonl)."""
from . import values as V

AGG = {'SUM', 'PRODUCT', 'SUMSQ', 'AVERAGE', 'MIN', 'MAX', 'MEDIAN', 'STDEV', 'STDEV.S', 'STDEVP',
       'STDEV.P', 'VAR', 'VAR.S', 'VARP', 'VAR.P', 'COUNT', 'COUNTA', 'LARGE', 'SMALL', 'SUMPRODUCT'}


def _numeric_text(x):
    if x['k'] != 't':
        return False
    try:
        float(V.text_of(x))
        return True
    except ValueError:
        return False


def items(o, forms):
    for a in o['args']:
        if a['f'] in forms:
            if a['f'] == 'v':
                yield a['v']
            else:
                for r in a['v']['rows']:
                    for x in r:
                        yield x


def category(fn, formula, want, got, o):
    if fn in AGG and any(_numeric_text(x) for x in items(o, 'ra')):
        return 'numeric-text-inside-a-range-or-array-is-counted'
    return None
