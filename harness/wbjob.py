"""Worker process: runs workbook cases on the real library under the
PYTHONHASHSEED it was started with.   python -m harness.wbjob <job.json> <out.json>

job = {"gen": {kwargs of wbgen.make}, "items": [{"seed": s, "variants": [...]}]}
variant = {"path": "dict"|"file", "order": int|None, "spell": int|None,
           "qualify": "min"|"full", "trace": bool, "ov": {...}}
out = list of {"seed", "variant", "obs": {id: absvalue|None}, "exc", "trace": [...]}
"""
import os
import sys
import json
import random
import shutil
import tempfile
from fractions import Fraction


def digest_to_abs(d):
    """hook digest (formulas/_verif.digest) -> abstract scalar value."""
    from . import values as V
    if isinstance(d, list):
        if d and all(isinstance(r, list) for r in d):
            rows = [[digest_to_abs(x) for x in r] for r in d]
        else:
            rows = [[digest_to_abs(x) for x in d]]
        if len(rows) == 1 and len(rows[0]) == 1:
            return rows[0][0]
        return {'k': 'a', 'rows': rows}
    if isinstance(d, dict) and 'rng' in d:
        return digest_to_abs(d.get('v'))
    if isinstance(d, bool):
        return V.B(d)
    if isinstance(d, int):
        return {'k': 'n', 'n': d, 'd': 1, 'e': 0}
    if isinstance(d, str):
        if d == 'EMPTY':
            return {'k': 'z'}
        if d.startswith('s:'):
            return V.T(d[2:])
        if d.startswith('e:'):
            t = d[2:]
            return V.E(V.TXT2ERR[t]) if t in V.TXT2ERR else {'k': 'foreign', 'repr': d}
        try:
            x = float(d)
        except ValueError:
            return {'k': 'foreign', 'repr': d[:60]}
        fr = Fraction(x).limit_denominator(10 ** 6)
        if abs(float(fr) - x) <= 1e-9 * max(1.0, abs(x)) and abs(fr.numerator) < 2 ** 31:
            return {'k': 'n', 'n': fr.numerator, 'd': fr.denominator, 'e': 0}
        return {'k': 'x', 'sign': (x > 0) - (x < 0)}
    return {'k': 'foreign', 'repr': str(d)[:60]}


def build_trace(g, events):
    """'set' events -> [[id, value], ...] in order (cells only)."""
    from . import wbgen as G
    name2id = {G.node_name(i): i for i in g.cells}
    rect2anchor = {}
    for i, c in g.cells.items():
        if c['k'] == 'af':
            rect2anchor[G.rect_node_name(*c['rect'])] = i
    out = []
    for e in events:
        if e.get('ev') != 'set':
            continue
        n = e.get('node')
        if n in name2id:
            out.append({'id': name2id[n], 'v': scalar(digest_to_abs(e['value']))})
        elif n in rect2anchor:
            a = rect2anchor[n]
            c = g.cells[a]
            arr = digest_to_abs(e['value'])
            rows = arr['rows'] if arr.get('k') == 'a' else [[arr]]
            _, _, c1, r1, c2, r2 = c['rect']
            b, s = c['rect'][0], c['rect'][1]
            for i in range(c['r']):
                for j in range(c['c']):
                    cid = G.cid(b, s, c1 + j, r1 + i)
                    try:
                        v = rows[i][j]
                    except IndexError:
                        v = {'k': 'foreign', 'repr': 'missing-element'}
                    out.append({'id': cid, 'v': v})
        else:
            # a single unpopulated cell the model created (blank placeholder)
            pass
    return out


def scalar(a):
    if a.get('k') == 'a':
        return a['rows'][0][0]
    return a


def run_item(gen_kw, item):
    from . import impl, wbgen as G, wbrun as R, values as V
    f = impl.F()
    from formulas import _verif
    g = G.make(item['seed'], **gen_kw)
    res = []
    for var in item['variants']:
        rnd = random.Random(var['order']) if var.get('order') is not None else None
        srnd = random.Random(var['spell']) if var.get('spell') is not None else None
        rec = {'seed': item['seed'], 'variant': var, 'obs': None, 'exc': None, 'trace': None}
        _verif.drain()
        d = None
        try:
            if var['path'] == 'dict':
                m = R.build_dict(g, rnd, srnd)
            else:
                d = tempfile.mkdtemp(prefix='verif-wb-')
                m = R.build_files(g, d, rnd, srnd, var.get('qualify', 'min'), var.get('load', 'all'),
                                  links=var.get('links'))
            _verif.drain()          # loading is over: what follows is the calculation
            sol = m.calculate()
            rec['obs'] = R.observe_all(sol, g)
            evs = _verif.drain()
            if var.get('trace'):
                rec['trace'] = build_trace(g, evs)
        except BaseException as ex:  # noqa
            if isinstance(ex, (KeyboardInterrupt, SystemExit)):
                raise
            inner = getattr(ex, 'ex', None)
            rec['exc'] = type(ex).__name__ + ('/' + type(inner).__name__ if inner else '') + \
                ': ' + str(ex)[:300]
            _verif.drain()
        finally:
            if d:
                shutil.rmtree(d, ignore_errors=True)
        res.append(rec)
    return res


def calc_events(evs):
    """Loading a model dispatches small sub-models too (defined names); the
    calculation proper is the last run of 'set' events that starts with a
    constant.  All events after the last 'add' / 'pop' belong to it."""
    last = -1
    for k, e in enumerate(evs):
        if e.get('ev') in ('add', 'pop', 'tok', 'rpn'):
            last = k
    return evs[last + 1:]


def main():
    job = json.load(open(sys.argv[1]))
    out = []
    for item in job['items']:
        out.extend(run_item(job['gen'], item))
    with open(sys.argv[2], 'w') as f:
        json.dump(out, f)


if __name__ == '__main__':
    main()
