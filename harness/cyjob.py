"""Worker for C10 under a given PYTHONHASHSEED.
python -m harness.cyjob <job.json> <out.json>
job = {"graphs": [[adj lists]...], "orders": k, "wbs": [seeds], "perm": int}
"""
import sys
import json
import random


def canon(c):
    k = c.index(min(c))
    return c[k:] + c[:k]


def main():
    from . import impl, wbgen as G, wbrun as R, values as V
    f = impl.F()
    from formulas.excel.cycle import simple_cycles
    job = json.load(open(sys.argv[1]))
    out = {'graphs': [], 'wbs': []}
    rnd = random.Random(job.get('perm', 0))
    for gi, adj in enumerate(job['graphs']):
        n = len(adj)
        names = ['n%d' % (i + 1) for i in range(n)]       # strings: order depends on the hash seed
        order = list(range(n))
        rnd.shuffle(order)
        graph = {}
        for i in order:
            succ = [names[j - 1] for j in adj[i]]
            rnd.shuffle(succ)
            graph[names[i]] = set(succ)
        try:
            ys = impl.with_timeout(lambda: list(simple_cycles(graph)), 10)
            ys = [[int(x[1:]) for x in c] for c in ys]
            out['graphs'].append({'i': gi, 'yields': ys})
        except BaseException as ex:  # noqa
            if isinstance(ex, (KeyboardInterrupt, SystemExit)):
                raise
            out['graphs'].append({'i': gi, 'exc': type(ex).__name__})
    for item in job['wbs']:
        s, path = item['seed'], item['path']
        g = G.make_cyclic(s)
        rec = {'seed': s, 'path': path, 'obs': None, 'exc': None}
        import tempfile, shutil
        d = None
        try:
            prnd = random.Random(job.get('perm', 0) * 7 + s)
            if path == 'dict':
                m = f.ExcelModel().from_dict(R.dict_spelling(g, prnd))
                impl.with_timeout(lambda: m.finish(complete=False, circular=True), 30)
            else:
                d = tempfile.mkdtemp(prefix='verif-c10-')
                paths = R.write_xlsx(g, d, prnd)
                m = f.ExcelModel().loads(*[paths[b] for b in sorted(paths)])
                impl.with_timeout(lambda: m.finish(circular=True), 30)
            sol = impl.with_timeout(m.calculate, 30)
            rec['obs'] = R.observe_all(sol, g)
        except impl.Timeout:
            rec['exc'] = 'Timeout'
        except BaseException as ex:  # noqa
            if isinstance(ex, (KeyboardInterrupt, SystemExit)):
                raise
            rec['exc'] = '%s: %s' % (type(ex).__name__, str(ex)[:200])
        finally:
            if d:
                shutil.rmtree(d, ignore_errors=True)
        out['wbs'].append(rec)
    json.dump(out, open(sys.argv[2], 'w'))


if __name__ == '__main__':
    main()
