"""C01 / C18, direction code -> spec: random formulas over the whole vocabulary
are parsed by the real parser with the tok/rpn hooks on; each recorded parse is
validated by spec/ParseTrace.tla (every token an enabled ShuntingYard action
emitting exactly the logged names; final tree = Grammar of the logged tokens).
"""
import os
import json
import random
import shutil
from ..common import seed, tier, pmap, shards, MachineryError, NCPU, workdir
from ..tlc import run_tlc
from .. import impl
from .. import formgen


def abstract_tok(cls, name):
    """Code token (class, name) -> token of Grammar.tla's alphabet."""
    if cls == 'Number' or cls == 'Empty':
        return '1'
    if cls == 'String':
        return '"s"'
    if cls == 'Error':
        return 'A1' if name == '#REF!' else '1'
    if cls == 'Range':
        return 'A1'
    if cls == 'Function':
        return 'SUM('
    if cls == 'Array':
        return name          # { } ;
    if cls == 'Parenthesis':
        return name
    if cls == 'Separator':
        return ','
    if cls == 'Intersect':
        return '_'
    if cls == 'OperatorToken':
        if name in ('u-', 'u+'):
            return name[1]
        return name
    return '?' + cls


def abstract_rpn(cls, name):
    if cls == 'Number':
        return '1'
    if cls == 'Empty':
        return ''
    if cls == 'String':
        return '"s"'
    if cls == 'Error':
        return 'A1' if name == '#REF!' else '1'
    if cls == 'Range':
        return 'A1'
    if cls == 'Function':
        return 'ARRAY' if name.upper() == 'ARRAY' else 'SUM'
    if cls == 'Intersect' or name == ' ':
        return '_'
    return name


def record(text):
    """Parse `text`; returns the trace record for ParseTrace.tla (or None when
    the hooks reported nothing) plus the raw outcome."""
    f = impl.F()
    from formulas import _verif
    from formulas.errors import FormulaError
    _verif.drain()
    exc = None
    try:
        impl.with_timeout(f.Parser().ast, 5, text)
        outcome = 'acc'
    except FormulaError:
        outcome = 'rej'
    except impl.Timeout:
        outcome, exc = 'escape', 'Timeout'
    except BaseException as ex:  # noqa
        if isinstance(ex, (KeyboardInterrupt, SystemExit)):
            raise
        outcome, exc = 'escape', type(ex).__name__
    evs = _verif.drain()
    events, pend, consumed = [], [], 0
    skip_first = True   # the implicit '(' and ')' are not logged as tok events
    for e in evs:
        if e['ev'] == 'rpn':
            pend.append(abstract_rpn(e['cls'], e['name']))
        elif e['ev'] == 'tok':
            tok = abstract_tok(e['cls'], e['name'])
            if e['cls'] == 'Function' and e['name'].upper() == 'ARRAY' and False:
                tok = 'ARRAY('
            events.append({'tok': tok, 'emitted': pend})
            consumed += e['n'] or 0
            pend = []
    # a defined name that is also the name of a function of the same formula (=IF/X(IF(1)))
    # is refused when the builder finishes, after every token was taken: the token
    # abstraction (every name is "A1") cannot show it, only the prefix is validated
    names = {e['name'].upper() for e in evs if e['ev'] == 'tok' and e['cls'] == 'Range'}
    funcs = {e['name'].upper() for e in evs if e['ev'] == 'tok' and e['cls'] == 'Function'}
    return {'events': events, 'outcome': outcome, 'final': pend,
            'consumed': consumed, 'name_is_function': bool(names & funcs)}, exc


def _run(texts):
    impl.F()
    out = []
    for t in texts:
        rec, exc = record(t)
        out.append((t, rec, exc))
    return out


def _validate(path):
    part = json.load(open(path))
    diam = sum(len(t['events']) + 1 for t in part) + 1
    return run_tlc('ParseTrace', 'ParseTrace.cfg',
                   env={'TRACE_FILE': path, 'EXPECT_DIAMETER': diam},
                   workers=1, allow_error=True, heap='3g')


def validate_traces(rep, recs, wd, pid, label):
    """recs: list of (text, rec).  Returns number of accepted traces."""
    traces = []
    for i, (text, rec) in enumerate(recs):
        m = text.find('=')
        body_len = len(text.replace('\n', '')) - (m + 1)
        outcome = rec['outcome']
        if outcome == 'rej':
            # Failure inside the token loop leaves text unconsumed: only the
            # consumed prefix can be validated.
            outcome = 'rej' if rec['at_end'] and not rec.get('name_is_function') else 'rej-at-token'
        traces.append({'id': i, 'events': rec['events'], 'outcome': outcome,
                       'final': rec['final']})
    nproc = min(NCPU, max(1, len(traces) // 200))
    files = []
    for k, part in enumerate(shards(traces, nproc)):
        p = os.path.join(wd, '%s-%s-%d.json' % (pid, label, k))
        with open(p, 'w') as f:
            json.dump(part, f)
        files.append(p)
    results = pmap(_validate, files, procs=nproc, chunk=1)
    rejected = {}
    for p, r in zip(files, results):
        if not r['ok']:
            raise MachineryError('ParseTrace failed:\n%s' % (
                r['error'] or r['out'][-2000:]))
        rep.add_tlc(r, 'ParseTrace (%s)' % label)
        for line in r['out'].splitlines():
            line = line.strip()
            if line.startswith('<<"REJECT"'):
                parts = [x.strip(' <>"') for x in line.split(',')]
                tid = int(parts[1])
                if tid not in rejected:
                    rejected[tid] = (int(parts[2]), parts[3])
    ok = 0
    for i, (text, rec) in enumerate(recs):
        rep.count()
        if i in rejected:
            posn, clause = rejected[i]
            rep.violation({'kind': 'trace-' + clause, 'text': text}, {
                'text': text, 'clause': clause, 'event_index': posn,
                'tokens': [e['tok'] for e in rec['events']],
                'outcome': rec['outcome'],
                'how': 'formulas.Parser().ast(text) with FORMULAS_VERIF=1; '
                       'trace rejected by ParseTrace.tla'})
        else:
            ok += 1
    return ok


def prepare(text, rec):
    """Decide whether a rejected parse failed at the end (all text consumed)."""
    m = text.replace('\n', '')
    i = m.find('=')
    body = m[i + 1:]
    # Parser strips the text with formula_check; consumed counts characters
    # of the expression the tokens matched.
    rec['at_end'] = rec['consumed'] >= len(body.strip()) and rec['outcome'] == 'rej'
    return rec


def run(rep):
    n = 4000 if tier() == 'quick' else 60000
    rnd = random.Random(seed() * 104729 + 11)
    texts, trees = [], []
    for i in range(n):
        t = formgen.rnd_tree(rnd, rnd.randint(1, 5))
        style = rnd.choice(['min', 'min', 'full'])
        texts.append(formgen.text(t, rnd if rnd.random() < 0.6 else None, style))
        trees.append(t)
    out = []
    for part in pmap(_run, shards(texts, NCPU * 4), chunk=1):
        out.extend(part)
    wd = workdir('c01r')
    try:
        recs = []
        for (text, rec, exc), tree in zip(out, trees):
            if rec['outcome'] == 'escape':
                rep.count()
                rep.violation({'kind': 'escape', 'text': text},
                              {'text': text, 'exception': exc})
                continue
            if rec['outcome'] == 'rej':
                # every generated formula is valid: rejection is a violation
                rep.count()
                cat = 'double-percent' if '%%' in text.replace(' ', '') and \
                    '%%' in text else None
                rep.violation({'cat': cat, 'kind': 'rejected-valid'} if cat else
                              {'kind': 'rejected-valid', 'text': text},
                              {'text': text})
                continue
            recs.append((text, prepare(text, rec)))
            if formgen.depth(tree) >= 2:
                rep.distinct('rt:' + text)
        ok = validate_traces(rep, recs, wd, 'C01', 'random-trees')
        rep.traces(ok)
        if recs:
            rep.sample({'random_formula': recs[0][0],
                        'trace_tokens': [e['tok'] for e in recs[0][1]['events']]})
    finally:
        shutil.rmtree(wd, ignore_errors=True)
