"""C01 - formulas are parsed according to Excel's operator grammar.

TLC explores the prefix tree of all token sequences (three alphabets) on
ShuntingYard.tla (the parser, one action per token class) and checks in every
state that it agrees with Grammar.tla (the ideal), that what the builder
receives is the post-order of the tree, that the rendering re-parses and that
redundant parentheses change nothing.  Every state is emitted as an obligation
and replayed on the real parser in several spellings.
"""
import os
import sys
import json
import random
import shutil
import threading
from ..common import (Report, main_wrapper, seed, tier, pmap, shards,
                      MachineryError, NCPU)
from ..tlc import run_tlc, parse_obl
from .. import values as V
from .. import impl
from .. import parsecheck as P

PID = 'C01'
CONFIGS = ['SY_ops.cfg', 'SY_args.cfg', 'SY_refs.cfg', 'SY_union.cfg', 'SY_assoc.cfg', 'SY_str.cfg']


def tlc_obligations(rep, configs, maxlen_bump=0):
    """Run the ShuntingYard configurations concurrently; returns obligations."""
    res = {}
    errs = []

    def one(cfg):
        try:
            c = cfg
            if maxlen_bump:
                src = open(os.path.join('/verif/spec', cfg)).read()
                import re
                src = re.sub(r'MaxLen = (\d+)',
                             lambda m: 'MaxLen = %d' % (int(m.group(1)) + maxlen_bump), src)
                c = cfg.replace('.cfg', '_T.cfg')
                with open(os.path.join('/verif/spec', c), 'w') as f:
                    f.write(src)
            res[cfg] = run_tlc('ShuntingYard', c, workers=max(2, NCPU // len(configs)),
                               timeout=3000, heap='8g')
        except BaseException as ex:  # noqa
            errs.append(ex)
        finally:
            if maxlen_bump:
                try:
                    os.remove(os.path.join('/verif/spec', cfg.replace('.cfg', '_T.cfg')))
                except OSError:
                    pass
    ths = [threading.Thread(target=one, args=(c,)) for c in configs]
    if maxlen_bump:
        # the deeper trees of the thorough tier one after the other (memory)
        for t in ths:
            t.start()
            t.join()
    else:
        for t in ths:
            t.start()
        for t in ths:
            t.join()
    if errs:
        raise errs[0]
    obl = []
    for cfg in configs:
        r = res[cfg]
        o = parse_obl(r['out'])
        if len(o) != r['distinct']:
            raise MachineryError('%s: %d obligations for %d states' % (
                cfg, len(o), r['distinct']))
        rep.add_tlc(r, 'ShuntingYard/%s: prefix tree of token sequences; '
                       'TypeOK Agree RpnIsPostOrder RenderFix RedundantParens'
                    % cfg)
        for x in o:
            x['cfg'] = cfg
        obl.extend(o)
        r['out'] = ''          # the parsed text is no longer needed
    return obl


def sign_run(toks):
    return any(a in P.SIGNS and b in P.SIGNS for a, b in zip(toks, toks[1:]))


def categorize(toks, kind, style=None):
    if any(a == '%' and b == '%' for a, b in zip(toks, toks[1:])):
        return 'double-percent'
    if style == 'nl':
        return 'newline-as-whitespace'
    if sign_run(toks) and '^' in toks and kind in ('value',):
        return 'sign-run-next-to-power'
    if sign_run(toks) and kind in ('value',):
        # the folded run is a single + (which leaves its operand as it is) where Excel
        # negates twice (which makes a number of a logical and fails on text)
        return 'sign-run-before-a-value-that-is-not-a-number'
    return None


def paren_variant(toks):
    """Redundant parentheses: every operand leaf and the whole formula."""
    out = ['(']
    for t in toks:
        if t in P.OPERANDS:
            out += ['(', t, ')']
        else:
            out.append(t)
    return out + [')']


def check_one(o, styles, rnd):
    """Returns a list of (kind, detail) problems for one obligation."""
    toks = o['s']
    probs = []
    if o['g'] == 'dc' or not toks or P.unspellable(toks):
        return probs, 0
    tree = P.decode_prefix(o['p']) if o['g'] == 'acc' else None
    run = sign_run(toks)
    n = 0
    variants = [(st, toks) for st in styles]
    if tree is not None and not run and '_' not in toks:
        variants.append(('parens', paren_variant(toks)))
    want = None
    for st, tk in variants:
        text = P.spell(tk, 'min' if st == 'parens' else st, rnd)
        p = P.run_parser(text, want_value=tree is not None)
        n += 1
        if p.status == 'escape':
            probs.append(('escape', {'text': text, 'exception': p.exc, 'style': st}))
            continue
        if o['g'] == 'rej':
            if p.status != 'rej':
                probs.append(('accepted-invalid', {'text': text, 'parsed_as': p.expr, 'style': st}))
            continue
        if p.status != 'acc':
            probs.append(('rejected-valid', {'text': text, 'expected_tree': o['r'], 'style': st}))
            continue
        if st == 'qual':
            # qualified references: same structure once the qualifications are taken off
            p.expr = P.unqual(p.expr)
            p.rpn = [P.unqual(x) for x in p.rpn] if p.rpn else p.rpn
        if st in ('lower', 'mixed') and p.expr:
            # a literal keeps the letter case it was typed in (true / TrUe) in the exported
            # text: the tree is the same, the comparison is on the canonical spelling
            import re
            p.expr = re.sub(r'(?<![\w.])true(?![\w.(])', 'TRUE', p.expr, flags=re.I)
        if not run:
            if p.expr != o['r']:
                probs.append(('render', {'text': text, 'expected': o['r'], 'observed': p.expr, 'style': st}))
                continue
            if st != 'parens':
                exp_rpn = P.postorder(tree)
                # (the builder is handed the text of a string literal, without its quotes)
                if P.norm_rpn(p.rpn) != [x.strip('"').upper() if x not in ('u-', 'u+') else x for x in exp_rpn]:
                    probs.append(('rpn', {'text': text, 'expected': exp_rpn, 'observed': p.rpn, 'style': st}))
                    continue
        if tree is not None:
            if want is None:
                st_w, val_w = impl.observe(P.treewalk, tree)
                want = ('raise', val_w) if st_w == 'raise' else ('ok', V.alpha(val_w))
            if p.vstatus != 'ok':
                got = ('raise', p.vstatus)
            else:
                got = ('ok', V.alpha(p.value))
            if want[0] == 'ok' and (got[0] != 'ok' or not _same(want[1], got[1])):
                probs.append(('value', {
                    'text': text, 'tree': o['r'], 'style': st,
                    'expected': V.show(want[1]),
                    'observed': V.show(got[1]) if got[0] == 'ok' else got[1]}))
    return probs, n


def _same(a, b):
    if a.get('k') == 'f' and b.get('k') == 'f':
        return V.close(a['x'], b['x'], 1e-12)
    if a.get('k') == 'a' and b.get('k') == 'a':
        if len(a['rows']) != len(b['rows']):
            return False
        return all(len(r1) == len(r2) and all(_same(x, y) for x, y in zip(r1, r2))
                   for r1, r2 in zip(a['rows'], b['rows']))
    return a == b


def _shard(args):
    obls, sd, thorough = args
    impl.F()
    rnd = random.Random(sd)
    out = []
    for o in obls:
        if o['g'] == 'acc':
            styles = ['min', 'spaced', 'lower', 'mixed'] if thorough else \
                ['min', rnd.choice(['spaced', 'lower', 'mixed'])]
        else:
            styles = ['min', 'spaced'] if thorough else ['min']
        if rnd.random() < 0.01:
            styles = styles + [rnd.choice(['tab', 'nl'])]
        if any(t in P.REFS for t in o['s']) and (thorough or rnd.random() < 0.5):
            styles = styles + ['qual']
        probs, n = check_one(o, styles, rnd)
        out.append((o['s'], o['g'], n, probs))
    return out


def select(obl, rnd, thorough):
    """Quick tier: every accepted sequence, a seeded sample of the rejected."""
    acc = [o for o in obl if o['g'] == 'acc']
    rej = [o for o in obl if o['g'] == 'rej']
    rnd.shuffle(rej)
    return acc + rej[:(600000 if thorough else 60000)]


def replay(rep, obl, pid, kinds=None):
    thorough = tier() == 'thorough'
    rnd = random.Random(seed() * 31 + 7)
    sel = select(obl, rnd, thorough)
    rnd.shuffle(sel)
    parts = shards(sel, NCPU * 4)
    results = pmap(_shard, [(p, seed() * 1000 + i, thorough)
                            for i, p in enumerate(parts)], chunk=1)
    n_seq = 0
    for part in results:
        for toks, g, n, probs in part:
            if not n:
                continue
            n_seq += 1
            rep.count(n)
            if g == 'acc' and len(toks) >= 3:
                rep.distinct(' '.join(toks))
            for kind, detail in probs:
                if kinds and kind not in kinds:
                    continue
                cat = categorize(toks, kind, detail.get('style'))
                sig = {'cat': cat, 'kind': kind} if cat else \
                    {'kind': kind, 'toks': ' '.join(toks)}
                detail = dict(detail, tokens=toks, grammar=g,
                              how='formulas.Parser().ast(text); compile()()')
                rep.violation(sig, detail)
    return n_seq, sel


def main():
    rep = Report(PID)
    thorough = tier() == 'thorough'
    obl = tlc_obligations(rep, CONFIGS, maxlen_bump=1 if thorough else 0)
    n_seq, sel = replay(rep, obl, PID,
                        kinds=('accepted-invalid', 'rejected-valid', 'render',
                               'rpn', 'value', 'escape'))
    rep.traces(n_seq)
    for o in sel[:3]:
        rep.sample({'tokens': o['s'], 'grammar': o['g'], 'render': o['r'],
                    'spellings': [P.spell(o['s'], st) for st in ('min', 'spaced', 'lower')]})
    from . import c01_random
    c01_random.run(rep)
    rep.cov['rule'] = (
        'all token sequences up to the configured length over three alphabets '
        '(operators+signs+parentheses; functions, separators, arrays; '
        'references and intersection), each replayed in 2-5 spellings; '
        'distinct non-trivial = distinct accepted sequences of >= 3 tokens, '
        'plus distinct random trees of depth >= 2')
    rep.cov['exhaustive'] = thorough
    rep.cov['obligations_total'] = len(obl)
    return rep.finish()


if __name__ == '__main__':
    main_wrapper(main)
