"""C14 - unresolvable functions and references degrade locally to error values.

Workbook.tla with <<"miss", what>> expressions (unknown function -> #NAME?,
missing sheet / book / unreadable book / #REF! literal -> #REF!, undefined name
-> #REF! or #NAME?).  For generated workbooks up to three fault sites are
chosen and every subset of them is a case: TLC explores every schedule (no
stuck state: FixedPoint) and writes SemF.  Each case is written to .xlsx (the
missing files are really missing, the unreadable one is garbage), loaded,
finished and calculated: no exception, every cell = SemF - so cells outside
the faults' cones keep their fault-free values and IFERROR / ISERROR intercept.
"""
import os
import json
import random
import shutil
import tempfile
import itertools
from ..common import (Report, main_wrapper, seed, tier, shards, pmap, MachineryError,
                      NCPU, workdir)
from ..tlc import run_tlc
from .. import values as V
from .. import impl
from .. import wbgen as G
from .. import wbrun as R
from . import c03

PID = 'C14'
GEN_KW = {'n_cells': 9, 'features': ['names', 'array']}

FAULTS = [
    lambda o: ['miss', 'fn', 'UNKNOWNFN(1)'],
    lambda o: ['op', '+', ['miss', 'fn', '_xlfn.NEWFN(2,3)'], ['c', V.N(1)]],
    lambda o: ['op', '+', ['miss', 'ref', 'NOSHEET!A1'], ['c', V.N(1)]],
    lambda o: ['fn', 'IFERROR', [['miss', 'ref', "'[GONE.XLSX]S1'!B2"], ['c', V.N(9)]]],
    lambda o: ['fn', 'ISERROR', [['miss', 'name', 'NOSUCHNAME']]],
    lambda o: ['miss', 'name', 'NOSUCHNAME'],
    # several distinct unresolved items in ONE formula, each intercepted on its own
    lambda o: ['op', '+', ['fn', 'IFERROR', [['miss', 'name', 'NOPE_A'], ['c', V.N(10)]]],
               ['fn', 'IFERROR', [['miss', 'name', 'NOPE_B'], ['c', V.N(20)]]]],
    lambda o: ['fn', 'SUM', [['fn', 'IFERROR', [['miss', 'name', 'NOPE_A'], ['c', V.N(1)]]],
                             ['fn', 'IFERROR', [['miss', 'name', 'NOPE_B'], ['c', V.N(2)]]],
                             ['fn', 'IFERROR', [['miss', 'ref', 'NOSHEET!A1'], ['c', V.N(3)]]]]],
    lambda o: ['op', '+', ['fn', 'IFERROR', [['miss', 'ref', 'NOSHEET!A1'], ['c', V.N(5)]]],
               ['fn', 'IFERROR', [['miss', 'ref', 'ZZGONE!B1'], ['c', V.N(7)]]]],
    lambda o: ['op', '*', ['miss', 'ref', '#REF!'], ['c', V.N(2)]],
    lambda o: ['fn', 'SUM', [['miss', 'ref', 'NOSHEET!A1:B2'], ['c', V.N(1)]]],
    lambda o: ['miss', 'ref', "'[BAD.XLSX]S1'!A1"],
    lambda o: ['fn', 'IFERROR', [['miss', 'fn', 'UNKNOWNFN(1)'], o]],
    lambda o: ['fn', 'ISERROR', [['miss', 'ref', 'NOSHEET!C3']]],
    lambda o: ['op', '+', ['miss', 'ref', 'ZZGONE!A1'], ['c', V.N(1)]],
    lambda o: ['fn', 'IFERROR', [['miss', 'ref', 'ZZGONE!B2:C3'], ['c', V.N(4)]]],
    lambda o: ['miss', 'ref', "'[ZZZ.XLSX]S1'!A1"],
    # absent workbooks whose names are not written in capitals (they sort after the others)
    lambda o: ['op', '+', ['miss', 'ref', "'[zeta.xlsx]S1'!A1"], ['c', V.N(1)]],
    lambda o: ['fn', 'IFERROR', [['miss', 'ref', "'[Zeta Two.xlsx]S1'!B2"], ['c', V.N(6)]]],
    lambda o: ['op', '+', ['fn', 'IFERROR', [['miss', 'ref', "'[zeta.xlsx]S1'!A1"], ['c', V.N(2)]]],
               ['fn', 'IFERROR', [['miss', 'ref', "'[alpha gone.xlsx]S1'!C3"], o]]],
    # unknown functions whose dotted names END in the name of an implemented function
    lambda o: ['miss', 'fn', '_xlfn.ECMA.CEILING(4.3,1)'],
    lambda o: ['fn', 'IFERROR', [['miss', 'fn', '_xlfn.STATS.MAX(1,7)'], ['c', V.N(3)]]],
    lambda o: ['fn', 'ISERROR', [['miss', 'fn', '_xlfn.CONFIDENCE.T(0.05,1,10)']]],
    lambda o: ['op', '+', ['miss', 'fn', 'MYLIB.SUM(1,2)'], ['c', V.N(1)]],
    lambda o: ['fn', 'IFERROR', [['miss', 'fn', '_xlfn._xlws.SORT(1)'], o]],
]
# workbooks whose files use numeric link ids (one seed in three): link 1 of every book is
# a file that cannot be read, the other books follow - a reference through link 1 is
# unresolved, references through the other links must not be disturbed by it
NUMERIC_FAULTS = [
    lambda o: ['op', '+', ['miss', 'ref', '[1]S1!A1'], ['c', V.N(1)]],
    lambda o: ['fn', 'IFERROR', [['miss', 'ref', '[1]S1!B2'], o]],
    lambda o: ['fn', 'ISERROR', [['miss', 'ref', '[1]S1!C3']]],
]


def numeric(s):
    return s % 3 == 0


def fix_num(e):
    if isinstance(e, list):
        if e and e[0] == 'c':
            return ['c', G.norm(e[1])]
        return [fix_num(x) for x in e]
    return e


def variants(s):
    """(fault subset, workbook) for every subset of the fault sites."""
    g0 = G.make(s, **GEN_KW)
    rnd = random.Random(s * 41 + 3)
    forms = [i for i in g0.order if g0.cells[i]['k'] == 'f']
    sites = rnd.sample(forms, min(len(forms), rnd.randint(1, 3)))
    faults = {i: fix_num(rnd.choice(FAULTS + (NUMERIC_FAULTS * 3 if numeric(s) else []))(g0.cells[i]['e']))
              for i in sites}
    out = []
    for k in range(len(sites) + 1):
        for sub in itertools.combinations(sites, k):
            g = G.make(s, **GEN_KW)
            for i in sub:
                g.cells[i] = {'k': 'f', 'e': faults[i]}
            out.append((list(sub), g))
    return out


def _work(item):
    f = impl.F()
    from formulas import _verif
    s, vi, sem = item['seed'], item['vi'], item['sem']
    sub, g = variants(s)[vi]
    res = {'seed': s, 'vi': vi, 'faults': sub, 'problems': [], 'n': 0, 'trace': None}
    d = tempfile.mkdtemp(prefix='verif-c14-')
    try:
        with open(os.path.join(d, 'BAD.XLSX'), 'w') as fh:
            fh.write('this is not a workbook')
        m = R.build_files(g, d, links='numeric' if numeric(s) else None)
        _verif.drain()
        sol = m.calculate()
        evs = _verif.drain()
        from ..wbjob import build_trace
        res['trace'] = build_trace(g, evs)
        obs = R.observe_all(sol, g)
        for i, e in sem.items():
            if i not in g.cells:
                continue
            res['n'] += 1
            o = obs.get(i)
            if o is None or not V.matches(e, o):
                res['problems'].append({'kind': 'value', 'cell': i, 'expected': V.show(e),
                                        'observed': V.show(o) if o else None})
    except BaseException as ex:  # noqa
        if isinstance(ex, (KeyboardInterrupt, SystemExit)):
            raise
        inner = getattr(ex, 'ex', None)
        res['problems'].append({'kind': 'aborts', 'exc': '%s%s: %s' % (
            type(ex).__name__, '/' + type(inner).__name__ if inner else '', str(ex)[:300])})
    finally:
        shutil.rmtree(d, ignore_errors=True)
    return res


def main():
    rep = Report(PID, level='model_checking')
    thorough = tier() == 'thorough'
    n = 40 if not thorough else 400
    base = seed() * 100000 + 14000
    seeds = [base + i for i in range(n)]
    wd = workdir('c14')
    try:
        cases, index, gens = [], [], {}
        for s in seeds:
            for vi, (sub, g) in enumerate(variants(s)):
                index.append((s, vi))
                gens[(s, vi)] = (sub, g)
                cases.append(G.tla_case(g))
        sem, cf = c03.tlc_sem(rep, wd, cases, '%d (workbook, fault subset) cases' % len(cases))
        items = [{'seed': s, 'vi': vi, 'sem': sem[k]} for k, (s, vi) in enumerate(index)]
        res = pmap(_work, items, chunk=1)
        traces, trs = [], []
        for k, r in enumerate(res):
            sub, g = gens[(r['seed'], r['vi'])]
            rep.count(max(1, r['n']))
            if sub:
                rep.distinct(('f', r['seed'], r['vi']))
            for p in r['problems']:
                rep.violation({'kind': p['kind'], 'seed': r['seed'], 'faults': json.dumps(sub),
                               'cell': p.get('cell'), 'got': p.get('observed') or p.get('exc')},
                              {'workbook_seed': r['seed'], 'fault_sites': sub, 'problem': p,
                               'workbook': c03.describe(g),
                               'how': 'files written (GONE.XLSX absent, BAD.XLSX garbage); '
                                      'ExcelModel().loads(*files).finish().calculate()'})
            if r['trace'] is not None:
                traces.append({'w': k + 1, 'events': r['trace'], 'total': True})
                trs.append(r)
        rejected = c03.validate_traces(rep, wd, cf, traces, PID)
        ok = 0
        for k, r in enumerate(trs):
            if k in rejected:
                posn, clause = rejected[k]
                sub, g = gens[(r['seed'], r['vi'])]
                rep.violation({'kind': 'trace-' + clause, 'seed': r['seed'], 'faults': json.dumps(sub)},
                              {'workbook_seed': r['seed'], 'fault_sites': sub, 'clause': clause,
                               'event': r['trace'][posn - 1] if posn - 1 < len(r['trace']) else None,
                               'workbook': c03.describe(g)})
            else:
                ok += 1
        rep.traces(ok)
        sub, g = gens[index[-1]]
        rep.sample({'fault_sites': sub, 'workbook': c03.describe(g)})
        rep.cov['rule'] = ('seeded workbooks x every subset of 1-3 fault sites (unknown / _xlfn. '
                           'functions, missing sheet, missing book, unreadable book, undefined '
                           'name, #REF! literal; bare, inside arithmetic, inside SUM, wrapped in '
                           'IFERROR / ISERROR); distinct non-trivial = distinct cases with >= 1 fault')
        rep.cov['fault_subsets'] = len(cases)
    finally:
        shutil.rmtree(wd, ignore_errors=True)
    return rep.finish()


if __name__ == '__main__':
    main_wrapper(main)
