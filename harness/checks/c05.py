"""C05 - array evaluation is the scalar rule lifted element-wise and fitted.

spec/XlArray.tla: Lift1/Lift2/LiftN (broadcasting) and Fit over all shape
combinations up to 3x3; TLC checks shape, point-wise, idempotence and arity
independence theorems and emits every case; each is replayed on the real code
with array literals and with referenced ranges, through Cell over a destination
range and through Ranges.push for fitting.
"""
import os
import json
import random
from ..common import (Report, main_wrapper, seed, tier, pmap, shards,
                      MachineryError, NCPU)
from ..tlc import run_tlc, parse_obl
from .. import values as V
from .. import impl

PID = 'C05'


def col(n):
    return chr(64 + n)


def shape(v):
    if v['k'] == 'a':
        return len(v['rows']), len(v['rows'][0])
    return 1, 1


def has_blank(v):
    if v['k'] == 'a':
        return any(e['k'] == 'z' for row in v['rows'] for e in row)
    return v['k'] == 'z'


def lit(v):
    if v['k'] == 'a':
        return '{%s}' % ';'.join(','.join(V.lit(e) for e in row) for row in v['rows'])
    return V.lit(v)


def pyarr(v):
    if v['k'] == 'a':
        return [[V.pyval(e) for e in row] for row in v['rows']]
    return [[V.pyval(v)]]


def rect_ref(c0, r0, shp):
    r, c = shp
    a = '%s%d' % (col(c0), r0)
    if (r, c) == (1, 1):
        return a
    return '%s:%s%d' % (a, col(c0 + c - 1), r0 + r - 1)


def eval_range(dst_shape, formula, inputs=None):
    """Cell over a destination range of the given shape."""
    ref = rect_ref(1, 20, dst_shape)
    return impl.cell_eval(ref, formula, inputs)


def routes(o):
    """(route, thunk) list for one obligation."""
    kind, x, y, dst, out = o['kind'], o['x'], o['y'], o['dst'], o['out']
    oshape = shape(out)
    rs = []
    if kind in ('+', '&', '=', '*'):
        if not (has_blank(x) or has_blank(y)):      # an array literal cannot hold a blank
            f = '=%s%s%s' % (lit(x), kind, lit(y))
            rs.append(('literal', f, lambda f=f: eval_range(oshape, f)))
        xr, yr = rect_ref(1, 1, shape(x)), rect_ref(5, 1, shape(y))
        f2 = '=%s%s%s' % (xr, kind, yr)
        rs.append(('ranges', f2, lambda f2=f2: eval_range(
            oshape, f2, {xr: pyarr(x), yr: pyarr(y)})))
        # the lifted operator leaves the arrays it read as they were (blanks stay blank)
        rs.append(('ranges-kept', f2, lambda f2=f2: ('kept', impl.operands_kept(
            f2, {xr: pyarr(x), yr: pyarr(y)}))))
    elif kind == 'u-':
        f = '=-%s' % lit(x)
        rs.append(('literal', f, lambda f=f: eval_range(oshape, f)))
        xr = rect_ref(1, 1, shape(x))
        rs.append(('ranges', '=-' + xr, lambda: eval_range(oshape, '=-' + xr, {xr: pyarr(x)})))
    elif kind == 'concat':
        n = y['n']
        bs = ['"b"'] * (n - 1)
        args = [lit(x)] + bs if dst[0] == 1 else bs + [lit(x)]
        f = '=CONCATENATE(%s)' % ','.join(args)
        rs.append(('literal n=%d' % n, f if n < 6 else f[:40] + '...', lambda f=f: eval_range(oshape, f)))
    elif kind == 'fit':
        ref = rect_ref(1, 20, tuple(dst))

        def push():
            impl.F()
            from formulas.ranges import Ranges
            val = pyarr(x) if x['k'] == 'a' else V.pyval(x)
            return Ranges().push(ref, val).value
        rs.append(('Ranges.push', 'Ranges().push(%r, %s)' % (ref, lit(x)), push))
        f = '=%s' % lit(x)
        rs.append(('cell', 'Cell(%r, %r)' % (ref, f), lambda f=f: eval_range(tuple(dst), f)))
        if x['k'] == 'a':
            # the same array handed through IF on the result of an IS function (the boolean
            # array classes of the library must not leak into what the range is padded with)
            f3 = '=IF(ISERROR(%s),%s,%s)' % (lit(x), lit(x), lit(x))
            rs.append(('cell-through-IS', 'Cell(%r, %r)' % (ref, f3),
                       lambda f3=f3: eval_range(tuple(dst), f3)))
            f4 = '=IF(ISNUMBER(%s),%s,%s)' % (lit(x), lit(x), lit(x))
            rs.append(('cell-through-IS', 'Cell(%r, %r)' % (ref, f4),
                       lambda f4=f4: eval_range(tuple(dst), f4)))
        if x['k'] != 'a':
            # the same single value as the *result of an operator* (an Array of one element)
            comp = {'n': '=(%s+0)', 't': '=(%s&"")', 'b': '=(%s=TRUE)', 'e': '=(%s+0)'}.get(x['k'])
            if comp:
                f2 = comp % lit(x)
                if x['k'] == 'e' and x['e'] == 'DIV0':
                    f2 = '=(1/0)'
                rs.append(('cell-computed', 'Cell(%r, %r)' % (ref, f2),
                           lambda f2=f2: eval_range(tuple(dst), f2)))
    return rs


def full_shape_alpha(val, shp):
    """alpha that keeps the (r, c) shape (a 1x1 expected result is scalar)."""
    a = V.alpha(val)
    return a


def _shard(obls):
    impl.F()
    out = []
    for o in obls:
        exp = o['out']
        for route, text, thunk in routes(o):
            st, val = impl.observe(thunk)
            if st != 'raise' and isinstance(val, tuple) and val and val[0] == 'kept':
                if val[1]:
                    out.append((o, route, text, False,
                                {'k': 'changed', 'repr': '; '.join('%s: %s -> %s' % c for c in val[1][:4])}))
                continue
            if route == 'ranges-kept':
                continue          # the call itself failed: the 'ranges' route reports that
            if st == 'raise':
                obs = {'k': 'raise', 'repr': val}
                ok = False
            else:
                obs = V.alpha(val)
                ok = V.matches(exp if exp['k'] != 'a' or shape(exp) != (1, 1)
                               else exp['rows'][0][0], obs)
            out.append((o, route, text, ok, obs))
    return out


def categorize(o, obs, route=None):
    kind, x, y = o['kind'], o['x'], o['y']
    if kind in ('+', '&', '=', '*'):
        (r1, c1), (r2, c2) = shape(x), shape(y)
        mism = (r1 != r2 and 1 not in (r1, r2)) or (c1 != c2 and 1 not in (c1, c2))
        if mism:
            return 'broadcast-of-mismatched-shapes'
    if kind == 'fit':
        (r, c), (dr, dc) = shape(x), tuple(o['dst'])
        if (r > 1 or c > 1) and (r != dr or c != dc):
            # the recorded finding: the array is flattened and refilled (numpy resize), which
            # is only right when the destination is at least as large in both directions
            # (padding / repeating works), or keeps the width and drops rows, or is one row
            grows = dr >= r and dc >= c
            prefix = (dc == c and dr <= r) or (dr == 1 and dc <= c)
            if route and route.startswith('Ranges.push'):
                prefix = False          # Ranges.push only pads
            if not (grows or prefix):
                return 'fit-array-into-range-of-other-shape'
    if kind == 'concat' and y['n'] >= 32:
        return 'element-wise-function-with-32-or-more-arguments'
    return None


def main():
    rep = Report(PID)
    src = open('/verif/spec/XlArray.cfg').read().replace('EmitObl = FALSE', 'EmitObl = TRUE')
    tmp = 'XlArray_run%d.cfg' % os.getpid()
    with open(os.path.join('/verif/spec', tmp), 'w') as f:
        f.write(src)
    try:
        r = run_tlc('XlArray', tmp)
    finally:
        os.remove(os.path.join('/verif/spec', tmp))
    rep.add_tlc(r, 'XlArray: all shape pairs <= 3x3, fits into <= 3x3, argument '
                   'counts 1..40; ShapeOK Pointwise FitShape FitIdempotent '
                   'FitScalar ArityIndependent')
    obl = parse_obl(r['out'])
    if len(obl) * 2 != r['distinct']:
        raise MachineryError('XlArray: %d obligations for %d states' % (len(obl), r['distinct']))
    results = []
    for part in pmap(_shard, shards(obl, NCPU * 4), chunk=1):
        results.extend(part)
    for o, route, text, ok, obs in results:
        rep.count()
        rep.distinct((o['kind'], V.show(o['x']), V.show(o['y']), str(o['dst'])))
        if not ok and obs.get('k') == 'changed':
            rep.violation({'kind': 'operand-changed', 'op': o['kind'], 'x': V.show(o['x']), 'y': V.show(o['y'])},
                          {'kind': o['kind'], 'spelling': text, 'route': route, 'changed': obs['repr'],
                           'how': 'the compiled formula called on Ranges holding the arrays; the Ranges are '
                                  'read again afterwards (the lifted step leaves its operands unchanged)'})
            continue
        if not ok:
            cat = categorize(o, obs, route)
            got = V.show(obs) if obs['k'] != 'raise' else 'raise:' + obs['repr'].split(':')[0]
            sig = {'cat': cat, 'route': route.split(' ')[0]} if cat else \
                {'kind': o['kind'], 'x': V.show(o['x']), 'y': V.show(o['y']),
                 'dst': str(o['dst']), 'route': route, 'got': got}
            rep.violation(sig, {'kind': o['kind'], 'spelling': text, 'route': route,
                                'x': V.show(o['x']), 'y': V.show(o['y']), 'dst': o['dst'],
                                'expected': V.show(o['out']), 'observed': got})
    rep.traces(len(results))
    for o, route, text, ok, obs in results[:4]:
        rep.sample({'kind': o['kind'], 'spelling': text, 'expected': V.show(o['out'])})
    from . import c05_trace
    c05_trace.run(rep)
    rep.cov['rule'] = ('every (operator, shape, shape) with shapes up to 3x3, '
                       'every fit of each shape into each destination up to '
                       '3x3, CONCATENATE with 1..40 arguments; each in 1-2 '
                       'spellings; all are distinct non-trivial cases')
    rep.cov['exhaustive'] = True
    return rep.finish()


if __name__ == '__main__':
    main_wrapper(main)
