"""C02, direction code -> spec: seeded random operand pairs evaluated by the
real code; the recorded events are validated by spec/XlOpsTrace.tla."""
import os
import json
import random
from fractions import Fraction
from ..common import seed, tier, pmap, shards, MachineryError, NCPU
from ..tlc import run_tlc
from .. import values as V
from .. import impl

OPS2 = ['+', '-', '*', '/', '^', '&', '=', '<>', '<', '<=', '>', '>=']
OPS1 = ['u-', 'u+', '%']
ERRS = ['NULL', 'DIV0', 'VALUE', 'REF', 'NAME', 'NUM', 'NA']
WORDS = ['a', 'A', 'b', 'ab', 'Ab', 'x y', '', 'TRUE', '1,5', '3a', 'é']


def rnd_dec(rnd, places=2, lim=300):
    p = rnd.choice([0, 0, 1, places])
    n = rnd.randint(-lim * 10 ** p, lim * 10 ** p)
    f = Fraction(n, 10 ** p)
    return {'k': 'n', 'n': f.numerator, 'd': f.denominator, 'e': 0}


def dec_text(a):
    f = Fraction(a['n'], a['d'])
    if f.denominator == 1:
        return str(f.numerator)
    s = '%.6f' % float(abs(f))
    s = s.rstrip('0')
    return ('-' if f < 0 else '') + s


def rnd_operand(rnd, op):
    r = rnd.random()
    if op == '^':
        return rnd_dec(rnd, 1, 30)
    if r < 0.55:
        return rnd_dec(rnd)
    if r < 0.70:
        t = dec_text(rnd_dec(rnd))
        if rnd.random() < 0.3:
            t = ' ' * rnd.randint(0, 2) + t + ' ' * rnd.randint(0, 2)
        return V.T(t)
    if r < 0.80:
        return V.T(rnd.choice(WORDS))
    if r < 0.88:
        return V.B(rnd.random() < 0.5)
    if r < 0.94:
        return dict(V.Z)
    return V.E(rnd.choice(ERRS))


def rnd_event(rnd):
    op = rnd.choice(OPS2 + OPS1)
    a = rnd_operand(rnd, op)
    if op in OPS1:
        return op, a, dict(V.Z)
    if op == '^':
        b = rnd.choice([V.N(0), V.N(1), V.N(2), V.N(3), V.N(-1), V.N(-2),
                        V.N(1, 2), V.N(3, 2), V.N(-1, 2)])
        b = dict(b, e=0)
    else:
        b = rnd_operand(rnd, op)
    return op, a, b


def obs_abstract(val):
    """alpha, then numbers to the exact-rational record the trace spec reads."""
    a = V.alpha(val)
    if a['k'] == 'f':
        x = a['x']
        fr = Fraction(x).limit_denominator(10 ** 6)
        if V.close(float(fr), x, 1e-9) and abs(fr.numerator) < 2 ** 31:
            return {'k': 'n', 'n': fr.numerator, 'd': fr.denominator, 'e': 0}
        return {'k': 'x', 'sign': (x > 0) - (x < 0)}
    if a['k'] == 'a':
        return {'k': 'foreign', 'repr': 'array-result'}
    return a


def _run(evs):
    impl.F()
    out = []
    for op, a, b in evs:
        if op in OPS1:
            f = '=A1%' if op == '%' else '=%sA1' % {'u-': '-', 'u+': '+'}[op]
            inp = {'A1': V.cellval(a)}
        else:
            f = '=A1%sB1' % op
            inp = {'A1': V.cellval(a), 'B1': V.cellval(b)}
        st, val = impl.observe(impl.cell_eval, 'C1', f, inp)
        r = {'k': 'raise', 'repr': val} if st == 'raise' else obs_abstract(val)
        out.append({'op': op, 'a': a, 'b': b, 'r': r})
    return out


def _validate(args):
    path, = args
    r = run_tlc('XlOpsTrace', 'XlOpsTrace.cfg', env={'TRACE_FILE': path},
                workers=1, allow_error=True, heap='2g')
    return r


def run(rep, wd):
    n = 6000 if tier() == 'quick' else 120000
    rnd = random.Random(seed() * 7919 + 2)
    evs = [rnd_event(rnd) for _ in range(n)]
    recorded = []
    for part in pmap(_run, shards(evs, 64)):
        recorded.extend(part)
    nproc = NCPU if n >= 2000 else 1
    files = []
    for i, part in enumerate(shards(recorded, nproc)):
        p = os.path.join(wd, 'trace%d.json' % i)
        with open(p, 'w') as f:
            json.dump(part, f)
        files.append((p, part))
    results = pmap(_validate, [(p,) for p, _ in files], procs=nproc)
    accepted = 0
    for (p, part), r in zip(files, results):
        if r['error'] and 'TraceAccepted' not in (r['error'] or ''):
            if 'REJECT' not in r['out']:
                raise MachineryError('XlOpsTrace failed:\n%s' % r['error'])
        if not r['ok']:
            raise MachineryError('XlOpsTrace did not consume its trace:\n%s'
                                 % (r['error'] or r['out'][-2000:]))
        rep.add_tlc(r, 'XlOpsTrace: %d recorded events' % len(part))
        rejected = set()
        for line in r['out'].splitlines():
            line = line.strip()
            if line.startswith('<<"REJECT"'):
                rejected.add(int(line.split(',')[1].strip(' >')))
        for idx, ev in enumerate(part, 1):
            rep.count()
            if idx in rejected:
                got = ev['r']
                sig = {'op': ev['op'], 'a': V.show(ev['a']),
                       'b': V.show(ev['b']) if ev['op'] not in OPS1 else '',
                       'got': V.show(got) if got['k'] not in ('raise', 'x', 'foreign')
                       else got['k'] + ':' + str(got.get('repr', got.get('sign'))).split(':')[0]}
                rep.violation(sig, {
                    'route': 'trace', 'event': ev,
                    'how': 'cell route (=A1 op B1); event rejected by '
                           'XlOpsTrace.tla (result not in the class '
                           'XlOps!Bin/Un allows)'})
            else:
                accepted += 1
                rep.distinct(('trace', ev['op'], V.show(ev['a']), V.show(ev['b'])))
    rep.traces(accepted)
    rep.sample({'trace_event': recorded[0]})
    rep.cov['trace_events'] = len(recorded)
