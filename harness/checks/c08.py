"""C08 - compiled functions agree with interpretation for every argument.

Workbook.tla models ExcelModel.compile (pre-evaluation without the inputs,
freezing, later evaluation from frozen values and arguments): TLC checks
FrozenIndependent and CompiledEqualsSem for every generated (workbook, input
list, argument tuple) - with the code's SELF-path deviation named - and writes
Sem(W, inputs := arguments).  Each compiled function is called on every
argument tuple and compared with Sem and with calculate(inputs=, outputs=) on a
fresh model.  Single formulas: compile() vs the same formula with the arguments
written in as literals, arguments in the order func.inputs reports.
"""
import os
import json
import random
import shutil
from ..common import (Report, main_wrapper, seed, tier, shards, pmap, MachineryError,
                      NCPU, workdir)
from ..tlc import run_tlc
from .. import values as V
from .. import impl
from .. import wbgen as G
from .. import wbrun as R
from .. import lifecycle as L
from .. import formgen
from . import c03

PID = 'C08'
NLIST, NARGS = 3, 3


def arg_value(rnd):
    r = rnd.random()
    if r < 0.6:
        return G.rnd_const(rnd, 'n')
    return G.rnd_const(rnd, 'ntbe')


def plan(g, s):
    """Input lists (ids) and argument tuples for one workbook."""
    rnd = random.Random(s * 97 + 1)
    ovsets = L.make_ovsets(g, rnd, NLIST)
    if getattr(g, 'directed', None):
        # a directed workbook names the input lists worth trying
        ovsets = [{'ov': {i: G.rnd_const(rnd, 'n') for i in ids}, 'style': 'cells'}
                  for ids in g.directed[:NLIST]]
    lists = []
    consts = [i for i, c in g.cells.items() if c['k'] == 'c']
    for o in ovsets:
        ov = dict(o['ov'])
        extra = None
        if o['style'] != 'cells':
            # a whole-range input preceded by a plain cell input
            pool = [i for i in consts if i not in ov]
            if pool:
                extra = rnd.choice(pool)
                ov[extra] = G.rnd_const(rnd, 'n')
        ids = list(ov)
        tuples = [ov]
        for _ in range(NARGS - 1):
            tuples.append({i: arg_value(rnd) for i in ids})
        lists.append({'ids': ids, 'style': o['style'], 'tuples': tuples, 'extra': extra})
    return lists


def concretise_mixed(g, lst, tup, use_names):
    """Ordered (key, value) pairs: plain cells first, then names / the range."""
    targets = {}
    for n, e in g.names.items():
        if e[0] == 'ref':
            targets.setdefault(e[1], "'[%s]'!%s" % (G.name_text(g, e)[0], n))
    st = lst['style']
    plain, later = [], []
    if st != 'cells':
        e = st[1]
        if lst.get('extra'):
            plain.append((G.node_name(lst['extra']), V.pyval(tup[lst['extra']])))
        rows = [[V.pyval(tup[x]) for x in row] for row in g.rect_ids(e)]
        later.append((G.rect_node_name(*e[1:]), rows))
    else:
        for i in lst['ids']:
            if use_names and i in targets:
                later.append((targets[i], V.pyval(tup[i])))
            else:
                plain.append((G.node_name(i), V.pyval(tup[i])))
    return plain + later


def _work(item):
    impl.F()
    s, k, gen_kw, path = item['seed'], item['idx'], item['gen'], item['path']
    g = G.make(s, **gen_kw)
    lists = plan(g, s)
    sem = item['sem']          # sem[li][ti] = expected valuation
    out = {'seed': s, 'problems': [], 'n': 0}
    outs = L.out_cells(g)
    if not outs:
        return out
    tmp = None
    try:
        import tempfile
        if path == 'dict':
            m = R.build_dict(g)
        else:
            tmp = tempfile.mkdtemp(prefix='verif-c08-')
            m = R.build_files(g, tmp)
        for li, lst in enumerate(lists):
            ovset = {'ov': {i: v for i, v in lst['tuples'][0].items() if i != lst.get('extra')},
                     'style': lst['style']}
            use_names = (k + li) % 2 == 0
            keys = [kv[0] for kv in concretise_mixed(g, lst, lst['tuples'][0], use_names)]
            # the recorded finding: an input that is an unpopulated cell WITHOUT a node of its
            # own (only reachable through the SELF look-up of ranges with several blanks)
            # (cells named as inputs one by one - a whole range supplied as one input is not it)
            unpop = lst['style'] == 'cells' and any(
                i not in g.cells and not L.has_own_node(g, i) for i in lst['ids'])
            overlap = bool(set(lst['ids']) & set(outs))
            hazard = L.range_override_hazard(g, ovset) or bool(
                use_names and L.name_override_hazard(g, ovset))
            try:
                func = m.compile(inputs=keys, outputs=[G.node_name(i) for i in outs])
            except BaseException as ex:  # noqa
                if isinstance(ex, (KeyboardInterrupt, SystemExit)):
                    raise
                out['problems'].append({'kind': 'compile-raises', 'list': li, 'inputs': keys,
                                        'exc': type(ex).__name__, 'msg': str(ex)[:200],
                                        'unpop': unpop, 'hazard': hazard, 'overlap': overlap})
                continue
            first_call = None
            for ti, tup in enumerate(lst['tuples']):
                args = dict(concretise_mixed(g, lst, tup, use_names))
                exp = sem[li][ti]
                try:
                    res = func(*[args[k_] for k_ in keys])
                    if ti == 0:
                        r0 = [res] if len(outs) == 1 else list(res)
                        first_call = ([args[k_] for k_ in keys],
                                      [V.show(V.alpha(R._first(v.value if hasattr(v, 'ranges') else v)))
                                       for v in r0])
                except BaseException as ex:  # noqa
                    if isinstance(ex, (KeyboardInterrupt, SystemExit)):
                        raise
                    out['problems'].append({'kind': 'call-raises', 'list': li, 'tuple': ti,
                                            'inputs': keys, 'exc': type(ex).__name__,
                                            'unpop': unpop, 'hazard': hazard, 'overlap': overlap})
                    continue
                if len(outs) == 1:
                    res = [res]
                # the same through calculate() on the same model (fresh solution)
                sol = m.calculate(inputs=args, outputs=[G.node_name(i) for i in outs])
                for i, v in zip(outs, res):
                    v = v.value if hasattr(v, 'ranges') else v
                    o = V.alpha(R._first(v))
                    c = R.node_value(sol, g, i)
                    out['n'] += 1
                    if i in exp and not V.matches(exp[i], o):
                        if hazard and c is not None and V.show(c) == V.show(o):
                            # the value supplied through a range / name does not reach a
                            # formula (or unpopulated) member in calculate() either: the
                            # compiled function equals the full calculation, which is what
                            # C08 states; the deviation of calculate() itself is recorded
                            # under C07 (range-override-with-unpopulated-or-formula-member)
                            out['agree_with_calculate'] = out.get('agree_with_calculate', 0) + 1
                            continue
                        out['problems'].append({
                            'kind': 'compiled-vs-sem', 'list': li, 'tuple': ti, 'cell': i,
                            'inputs': keys, 'args': {k_: V.show(x) for k_, x in tup.items()},
                            'expected': V.show(exp[i]), 'observed': V.show(o),
                            'calculate_gives': V.show(c) if c else None,
                            'unpop': unpop, 'hazard': hazard, 'overlap': overlap})
            # what was pre-computed at compile time is never observable: after the model
            # was used with OTHER cells supplied (every constant that is not an input of
            # this function) the function still answers as it did the first time
            if first_call is not None:
                try:
                    others = {G.node_name(i): float(7 + n_) for n_, i in enumerate(g.order)
                              if g.cells[i]['k'] == 'c' and g.cells[i]['v']['k'] == 'n'
                              and G.node_name(i) not in keys}
                    if others:
                        m.calculate(inputs=others)
                        res = func(*first_call[0])
                        r1 = [res] if len(outs) == 1 else list(res)
                        again = [V.show(V.alpha(R._first(v.value if hasattr(v, 'ranges') else v))) for v in r1]
                        out['n'] += 1
                        if again != first_call[1]:
                            out['problems'].append({
                                'kind': 'compiled-changes-after-model-use', 'list': li, 'tuple': 0,
                                'cell': outs[0], 'inputs': keys, 'expected': str(first_call[1]),
                                'observed': str(again), 'unpop': unpop, 'hazard': hazard, 'overlap': overlap})
                except BaseException as ex:  # noqa
                    if isinstance(ex, (KeyboardInterrupt, SystemExit)):
                        raise
    finally:
        if tmp:
            shutil.rmtree(tmp, ignore_errors=True)
    return out


def single_formulas(rep):
    """compile() of one formula vs the formula with literals written in."""
    impl.F()
    rnd = random.Random(seed() * 31337 + 3)
    n = 600 if tier() == 'quick' else 8000
    refs = ['A1', 'B2', 'C3', 'D4']
    bad = 0
    f = impl.F()
    for _ in range(n):
        t = formgen.rnd_tree(rnd, rnd.randint(1, 3), allow_refs=False, allow_arrays=False)
        # splice references in place of some numeric leaves
        used = []

        def splice(t):
            if t[0] == 'leaf':
                if rnd.random() < 0.5 and not t[1].startswith('"') and not t[1].startswith('#'):
                    r = rnd.choice(refs)
                    used.append(r)
                    return ('leaf', r)
                return t
            if t[0] == 'un':
                return ('un', t[1], splice(t[2]))
            if t[0] == 'bin':
                return ('bin', t[1], splice(t[2]), splice(t[3]))
            if t[0] == 'fn':
                return ('fn', t[1], tuple(splice(a) if a[0] != 'empty' else a for a in t[2]))
            return t
        t2 = splice(t)
        if not used:
            continue
        text = formgen.text(t2, None, 'min')
        from formulas.tokens.operand import Error, XlError
        pool = [0, 1, 2, -3, 2.5, 'ab', True, 7]
        if rnd.random() < 0.5:      # which of two different errors arises must agree too
            pool = pool + [Error.errors['#N/A'], Error.errors['#DIV/0!'], Error.errors['#N/A'],
                           Error.errors['#DIV/0!']]
        vals = {r: rnd.choice(pool) for r in set(used)}
        rep.count()
        try:
            func = f.Parser().ast(text)[1].compile()
            order = list(func.inputs)
            got = V.alpha(func(*[vals[k] for k in order]))
        except f.errors.FormulaError if hasattr(f, 'errors') else Exception:
            continue
        except BaseException as ex:  # noqa
            if isinstance(ex, (KeyboardInterrupt, SystemExit)):
                raise
            got = {'k': 'raise', 'repr': type(ex).__name__}

        def lit(x):
            if isinstance(x, XlError):
                return str.__str__(x)
            if isinstance(x, bool):
                return 'TRUE' if x else 'FALSE'
            if isinstance(x, str):
                return '"%s"' % x
            return '(%s)' % x if x < 0 else str(x)
        import re
        text_lit = re.sub(r'\b(A1|B2|C3|D4)\b', lambda m_: lit(vals[m_.group(1)]), text)
        try:
            want = V.alpha(f.Parser().ast(text_lit)[1].compile()())
        except BaseException as ex:  # noqa
            if isinstance(ex, (KeyboardInterrupt, SystemExit)):
                raise
            want = {'k': 'raise', 'repr': type(ex).__name__}
        rep.distinct(('sf', text))
        same = want == got or (want.get('k') == 'f' and got.get('k') == 'f'
                               and V.close(want['x'], got['x'], 1e-12))
        if not same:
            rep.violation({'kind': 'formula-compile-vs-literals', 'formula': text,
                           'args': json.dumps(vals, sort_keys=True)},
                          {'formula': text, 'inputs_order': order if got.get('k') != 'raise' else None,
                           'args': vals, 'with_literals': text_lit,
                           'compiled_gives': V.show(got) if got.get('k') != 'raise' else got,
                           'literal_gives': V.show(want) if want.get('k') != 'raise' else want})
    rep.sample({'single_formula': text, 'literals': text_lit})


def main():
    rep = Report(PID)
    thorough = tier() == 'thorough'
    n = 70 if not thorough else 700
    base = seed() * 100000 + 8000
    seeds = [base + i for i in range(n)]
    wd = workdir('c08')
    try:
        gens = {s: G.make(s, **c03.GEN_KW) for s in seeds}
        cases, index = [], {}
        for s in seeds:
            for li, lst in enumerate(plan(gens[s], s)):
                for ti, tup in enumerate(lst['tuples']):
                    index[(s, li, ti)] = len(cases)
                    cases.append(G.tla_case(gens[s], tup))
        cf = os.path.join(wd, 'cases.json')
        of = os.path.join(wd, 'sem.json')
        json.dump(cases, open(cf, 'w'))
        r = run_tlc('Workbook', 'WorkbookCompile.cfg', env={'WB_FILE': cf, 'OUT_FILE': of},
                    timeout=1500, heap='8g')
        rep.add_tlc(r, 'Workbook (compile model as the code: SelfPath): CompileOK Partial '
                       'FixedPoint NoFireOverridden FireOnce over %d cases' % len(cases))
        # the ideal (no SELF path) must satisfy the compile theorems outright
        r2 = run_tlc('Workbook', 'WorkbookCompileIdeal.cfg',
                     env={'WB_FILE': cf, 'OUT_FILE': os.path.join(wd, 'sem2.json')},
                     timeout=1500, heap='8g')
        rep.add_tlc(r2, 'Workbook (ideal compile, no SELF path): FrozenIndependent '
                        'CompiledEqualsSem hold for every case')
        sem = json.load(open(of))
        items = []
        for k, s in enumerate(seeds):
            lists = plan(gens[s], s)
            items.append({'seed': s, 'idx': k, 'gen': c03.GEN_KW,
                          'path': 'dict' if k % 2 == 0 else 'file',
                          'sem': [[sem[index[(s, li, ti)]] for ti in range(len(l['tuples']))]
                                  for li, l in enumerate(lists)]})
        results = pmap(_work, items, chunk=1)
        for res in results:
            g = gens[res['seed']]
            rep.count(max(1, res['n']))
            rep.distinct(('wb', res['seed']))
            for p in res['problems']:
                if p.get('overlap'):
                    sig = {'cat': 'output-is-also-an-input'}
                elif p.get('unpop'):
                    sig = {'cat': 'input-is-an-unpopulated-cell-of-a-referenced-range'}
                elif p.get('hazard'):
                    sig = {'cat': 'range-input-with-unpopulated-or-formula-member'}
                elif p['kind'] == 'compile-raises' and 'Unreachable' in p.get('msg', ''):
                    sig = {'cat': 'output-does-not-depend-on-the-inputs'}
                else:
                    sig = {'kind': p['kind'], 'seed': res['seed'], 'cell': p.get('cell'),
                           'inputs': json.dumps(p.get('inputs')), 'got': p.get('observed') or p.get('exc')}
                rep.violation(sig, {'workbook_seed': res['seed'], 'problem': p,
                                    'workbook': c03.describe(g),
                                    'how': 'm.compile(inputs, outputs)(*args) vs Sem(W, inputs := args)'})
        rep.traces(len(results))
        rep.sample({'workbook': c03.describe(gens[seeds[0]]),
                    'input_lists': [l['ids'] for l in plan(gens[seeds[0]], seeds[0])]})
        single_formulas(rep)
        rep.cov['rule'] = ('seeded workbooks x 3 input lists (cells, names, ranges, unpopulated '
                           'cells) x 3 argument tuples of mixed kinds, outputs = the last two '
                           'formula cells; plus random single formulas with references; distinct '
                           'non-trivial = distinct workbooks / formulas')
    finally:
        shutil.rmtree(wd, ignore_errors=True)
    return rep.finish()


if __name__ == '__main__':
    main_wrapper(main)
