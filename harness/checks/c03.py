"""C03 - a calculated workbook is a consistent fixed point, whatever the order.

spec/Workbook.tla: the history-free meaning Sem(W) of a workbook and Calc, one
calculation as any schedule of firings; TLC explores every schedule of every
generated workbook (Partial, FixedPoint, NoFireOverridden, FireOnce) and writes
Sem.  Each workbook is materialised as a dictionary and as .xlsx files under
several insertion / sheet / book orders, spellings and PYTHONHASHSEED values;
every cell must equal Sem.  The calculation recorded by hook H4 is validated
step by step by CalcTrace.tla.
"""
import os
import sys
import json
import random
import shutil
import subprocess
from concurrent.futures import ThreadPoolExecutor
from ..common import (Report, main_wrapper, seed, tier, shards, MachineryError, pmap,
                      NCPU, workdir, PY, VERIF, REPO)
from ..tlc import run_tlc
from .. import values as V
from .. import wbgen as G
from .. import wbrun as R
from .. import impl

PID = 'C03'
GEN_KW = {'n_cells': 9, 'features': ['names', 'array'], 'case_titles': True, 'overlaps': True,
          'blockranges': True, 'dense': True, 'twoblocks': True,
          'sparseinput': True}
# C03's own workbooks also use whole-column references (SUM(A:A)); C07 / C08 share GEN_KW
OWN_KW = dict(GEN_KW, features=['names', 'array', 'wholecol'])


def run_jobs(wd, gen_kw, items, hashseeds):
    """items: [{'seed', 'variants'}]; returns list of result records."""
    jobs = []
    per = max(1, len(items) // max(1, (NCPU // len(hashseeds))))
    k = 0
    for hs in hashseeds:
        for part in shards(items, max(1, NCPU // len(hashseeds))):
            jf = os.path.join(wd, 'job%d.json' % k)
            of = os.path.join(wd, 'out%d.json' % k)
            json.dump({'gen': gen_kw, 'items': part}, open(jf, 'w'))
            jobs.append((hs, jf, of))
            k += 1

    def run(j):
        hs, jf, of = j
        env = dict(os.environ)
        env['PYTHONHASHSEED'] = str(hs)
        env['VERIF_REPO'] = REPO
        p = subprocess.run([PY, '-m', 'harness.wbjob', jf, of], cwd=VERIF, env=env,
                           stdout=subprocess.PIPE, stderr=subprocess.STDOUT, timeout=3000)
        if p.returncode != 0 or not os.path.exists(of):
            raise MachineryError('wbjob failed:\n' + p.stdout.decode()[-2000:])
        recs = json.load(open(of))
        for r in recs:
            r['hashseed'] = hs
        return recs
    out = []
    with ThreadPoolExecutor(max_workers=NCPU) as ex:
        for recs in ex.map(run, jobs):
            out.extend(recs)
    return out


def tlc_sem(rep, wd, cases, label):
    cf = os.path.join(wd, 'cases.json')
    of = os.path.join(wd, 'sem.json')
    json.dump(cases, open(cf, 'w'))
    r = run_tlc('Workbook', 'Workbook.cfg', env={'WB_FILE': cf, 'OUT_FILE': of},
                timeout=1500, heap='8g')
    rep.add_tlc(r, 'Workbook (%s): every schedule of every case; Partial '
                   'FixedPoint NoFireOverridden FireOnce' % label)
    return json.load(open(of)), cf


def validate_traces(rep, wd, cf, traces, pid):
    """traces: list of {'w': case index (1-based), 'events', 'total'}"""
    if not traces:
        return set(), {}
    files = []
    for k, part in enumerate(shards(traces, NCPU)):
        p = os.path.join(wd, 'tr%d.json' % k)
        json.dump(part, open(p, 'w'))
        files.append((p, part))

    def val(a):
        p, part = a
        diam = sum(len(t['events']) + 1 for t in part) + 1
        return run_tlc('CalcTrace', 'CalcTrace.cfg',
                       env={'WB_FILE': cf, 'TRACE_FILE': p, 'EXPECT_DIAMETER': diam},
                       workers=1, allow_error=True, heap='3g', timeout=1500)
    with ThreadPoolExecutor(max_workers=NCPU) as ex:
        results = list(ex.map(val, files))
    rejected = {}
    base = 0
    for (p, part), r in zip(files, results):
        if not r['ok']:
            raise MachineryError('CalcTrace failed:\n%s' % (r['error'] or r['out'][-2000:]))
        rep.add_tlc(r, 'CalcTrace: %d recorded calculations' % len(part))
        for line in r['out'].splitlines():
            line = line.strip()
            if line.startswith('<<"REJECT"'):
                f = [x.strip(' <>"') for x in line.split(',')]
                gi = base + int(f[1]) - 1
                rejected.setdefault(gi, (int(f[2]), f[3]))
        base += len(part)
    return rejected


def _wholecol(item):
    import tempfile
    import shutil
    impl.F()
    g = G.make(item['seed'], **OWN_KW)
    out = {'obs': [], 'problems': []}
    for path in ('dict', 'file'):
        d = tempfile.mkdtemp(prefix='verif-c03wc-')
        try:
            m = R.build_dict(g) if path == 'dict' else R.build_files(g, d)
            obs = R.observe_all(m.calculate(), g)
        except BaseException as ex:  # noqa
            if isinstance(ex, (KeyboardInterrupt, SystemExit)):
                raise
            out['problems'].append((path, None, None, 'raises %s: %s' % (type(ex).__name__, str(ex)[:150])))
            continue
        finally:
            shutil.rmtree(d, ignore_errors=True)
        for i, e in item['sem'].items():
            if i not in g.cells:
                continue
            out['obs'].append(i)
            o = obs.get(i)
            if o is None or not V.matches(e, o):
                out['problems'].append((path, i, V.show(e), V.show(o) if o else None))
    return out


def main():
    rep = Report(PID)
    thorough = tier() == 'thorough'
    n = 240 if not thorough else 2000
    hashseeds = [0, 1] if not thorough else [0, 1, 2, 3, 4, 5]
    base_seed = seed() * 100000
    seeds = [base_seed + i for i in range(n)]
    wd = workdir('c03')
    try:
        gens = {s: G.make(s, **GEN_KW) for s in seeds}
        cases = [G.tla_case(gens[s]) for s in seeds]
        # a few workbooks with whole-column references (each costs seconds and gigabytes in
        # this library, so they are few and run four at a time)
        wc, k = [], 0
        while len(wc) < (6 if not thorough else 30) and k < 2000:
            g_ = G.make(base_seed + 50000 + k, **OWN_KW)
            if any("'col'" in repr(c.get('e')) for c in g_.cells.values()):
                wc.append(g_)
            k += 1
        cases += [G.tla_case(g_) for g_ in wc]
        sem, cf = tlc_sem(rep, wd, cases, '%d workbooks' % len(cases))
        for g_, res_ in zip(wc, pmap(_wholecol, [{'seed': g_.seed, 'sem': sem[n + i]}
                                                 for i, g_ in enumerate(wc)], chunk=1, procs=4)):
            rep.count(len(res_['obs']))
            rep.distinct(('wc', g_.seed))
            for path_, cell_, exp_, obs_ in res_['problems']:
                rep.violation({'kind': 'value', 'seed': g_.seed, 'cell': cell_, 'path': path_,
                               'got': obs_},
                              {'workbook_seed': g_.seed, 'variant': 'whole-column/' + path_, 'cell': cell_,
                               'expected': exp_, 'observed': obs_, 'workbook': describe(g_),
                               'how': 'workbook with a whole-column reference, dict and file load paths'})
        variants = [
            {'path': 'dict', 'order': None, 'spell': None, 'trace': True},
            {'path': 'dict', 'order': 1, 'spell': 1},
            {'path': 'file', 'order': None, 'spell': None, 'qualify': 'min', 'trace': True},
            {'path': 'file', 'order': 2, 'spell': 2, 'qualify': 'min'},
            {'path': 'file', 'order': None, 'spell': None, 'qualify': 'min', 'load': 'first'},
            {'path': 'file', 'order': None, 'spell': None, 'qualify': 'min', 'load': 'last'},
            # cross-book references written [n]Sheet!A1 through a link table whose first
            # entry is a file that cannot be read (LEGACY.XLS)
            {'path': 'file', 'order': None, 'spell': None, 'qualify': 'min', 'links': 'numeric'},
        ]
        if thorough:
            variants += [{'path': 'dict', 'order': 3, 'spell': 3},
                         {'path': 'file', 'order': 4, 'spell': 4, 'qualify': 'full'},
                         {'path': 'file', 'order': 5, 'spell': None, 'qualify': 'sheet'}]
        items = [{'seed': s, 'variants': variants} for s in seeds]
        recs = run_jobs(wd, GEN_KW, items, hashseeds)
        idx = {s: k for k, s in enumerate(seeds)}
        traces, trace_recs = [], []
        needed_cache = {}
        for r in recs:
            g = gens[r['seed']]
            exp = sem[idx[r['seed']]]
            var = r['variant']
            vdesc = '%s/order=%s/spell=%s/hashseed=%s' % (
                var['path'], var.get('order'), var.get('spell'), r['hashseed'])
            rep.count()
            if r['exc']:
                rep.violation({'kind': 'raises', 'seed': r['seed'], 'path': var['path'],
                               'exc': r['exc'].split(':')[0]},
                              {'workbook_seed': r['seed'], 'variant': vdesc, 'exc': r['exc'],
                               'workbook': describe(g)})
                continue
            nontriv = False
            for i, e in exp.items():
                if i not in g.cells:
                    continue
                o = r['obs'].get(i)
                books = sorted({b for b, _ in g.sheets})
                if var.get('load') in ('first', 'last'):
                    rootb = books[0] if var['load'] == 'first' else books[-1]
                    key = (r['seed'], rootb)
                    if key not in needed_cache:
                        needed_cache[key] = G.needed_from(
                            g, [x for x in g.cells if G.parse_id(x)[0] == rootb])
                    if i not in needed_cache[key]:
                        continue    # not loaded explicitly and not needed by what was
                if g.cells[i]['k'] != 'c':
                    nontriv = True
                if o is None or not V.matches(e, o):
                    root = books[0] if var.get('load') == 'first' else books[-1]
                    lazy_spill = var.get('load') in ('first', 'last') and any(
                        c['k'] == 'af' and G.parse_id(a)[0] != root
                        for a, c in g.cells.items())
                    sig = {'cat': 'spill-cells-of-a-lazily-loaded-book'} if lazy_spill else \
                        {'kind': 'value', 'seed': r['seed'], 'cell': i, 'path': var['path'],
                         'got': V.show(o) if o else 'no-node'}
                    rep.violation(sig,
                                  {'workbook_seed': r['seed'], 'variant': vdesc, 'cell': i,
                                   'expected': V.show(e), 'observed': V.show(o) if o else None,
                                   'workbook': describe(g)})
            if nontriv:
                rep.distinct(('wb', r['seed']))
            if r.get('trace') is not None:
                traces.append({'w': idx[r['seed']] + 1, 'events': r['trace'],
                               'total': True})
                trace_recs.append((r, vdesc))
        rejected = validate_traces(rep, wd, cf, traces, PID)
        ok = 0
        for k, (r, vdesc) in enumerate(trace_recs):
            if k in rejected:
                posn, clause = rejected[k]
                ev = r['trace'][posn - 1] if posn - 1 < len(r['trace']) else None
                rep.violation({'kind': 'trace-' + clause, 'seed': r['seed'],
                               'path': r['variant']['path']},
                              {'workbook_seed': r['seed'], 'variant': vdesc, 'clause': clause,
                               'event_index': posn, 'event': ev,
                               'workbook': describe(gens[r['seed']]),
                               'how': 'calculation recorded by hook H4; rejected by CalcTrace.tla'})
            else:
                ok += 1
        rep.traces(ok)
        rep.sample({'workbook': describe(gens[seeds[0]]),
                    'variants': [v['path'] for v in variants], 'hashseeds': hashseeds})
        rep.cov['rule'] = (
            'seeded random acyclic workbooks (9 cells, up to 3 sheets in 2 books, '
            'ranges, names, array formulas, cross-sheet/book references) x load '
            'path x insertion/sheet/book order x spelling x PYTHONHASHSEED; '
            'distinct non-trivial = distinct workbooks with at least one formula')
        rep.cov['workbooks'] = n
        rep.cov['hashseeds'] = hashseeds
        # how a referenced range is wired to its cells (Assemble.tla): every layout of a
        # 2 x 3 sheet in the specification, a sample (quick) / all (thorough) on the code
        from .. import asm
        asm.check(rep, 1500 if not thorough else None, seed())
    finally:
        shutil.rmtree(wd, ignore_errors=True)
    return rep.finish()


def describe(g):
    out = {}
    for i, c in g.cells.items():
        if c['k'] == 'c':
            out[i] = V.show(c['v'])
        elif c['k'] in ('f', 'af'):
            out[i] = ('{=%s}' if c['k'] == 'af' else '=%s') % G.expr_text(
                g, c['e'], G.parse_id(i)[:2], 'min')
    for n, e in g.names.items():
        out[n] = G.name_text(g, e)[2]
    return out


if __name__ == '__main__':
    main_wrapper(main)
