"""C16 - writing a solution reproduces it cell for cell.

Write.tla: writing node by node in any order gives exactly Out(Sem) at every
solved cell and leaves the rest untouched (WriteExact, Untouched, every order).
Each generated workbook (also with supplied inputs, including a populated cell
overridden to blank) is calculated and written into fresh books, into the
loaded books and to disk; the result is read back with plain openpyxl and
compared cell by cell with Out(Sem); compare() with the model's own files must
be empty.
"""
import os
import json
import random
import shutil
import tempfile
from ..common import (Report, main_wrapper, seed, tier, shards, pmap, MachineryError,
                      NCPU, workdir)
from ..tlc import run_tlc
from .. import values as V
from .. import impl
from .. import wbgen as G
from .. import wbrun as R
from .. import lifecycle as L
from . import c03

PID = 'C16'
GEN_KW = {'n_cells': 9, 'features': ['names', 'array']}


def make_wb(s):
    """One workbook in three has sheet titles with asymmetric case mappings."""
    if s % 3 == 0:
        return G.make(s, sheets=G.LAYOUT_CASE, **GEN_KW)
    return G.make(s, **GEN_KW)


def ovset_for(g, s):
    rnd = random.Random(s * 53 + 7)
    consts = [i for i, c in g.cells.items() if c['k'] == 'c']
    # cells read through a single-cell reference or a name: what a formula makes
    # of a *blank* there (IF / IFERROR returning it, then & or =) is not settled
    # by the property, so only the other cells are made blank
    single = set()

    def walk(e):
        if e[0] == 'ref':
            single.add(e[1])
        elif e[0] == 'name' and g.names[e[1]][0] == 'ref':
            single.add(g.names[e[1]][1])
        elif e[0] == 'op':
            walk(e[2]); walk(e[3])
        elif e[0] == 'un':
            walk(e[2])
        elif e[0] == 'fn':
            for a in e[2]:
                walk(a)
    for c in g.cells.values():
        if 'e' in c:
            walk(c['e'])
    for e in g.names.values():
        if e[0] == 'ref':
            single.add(e[1])
    ov = {}
    for i in rnd.sample(consts, min(len(consts), rnd.randint(1, 2))):
        blank_ok = i not in single
        ov[i] = {'k': 'z'} if (blank_ok and rnd.random() < 0.5) else G.rnd_const(rnd, 'ntbe')
    return {'ov': ov, 'style': 'cells'}


def inputs_of(g, ovset):
    return {G.node_name(i): V.cellval(v) for i, v in ovset['ov'].items()}


def ranges_of(g):
    out = {}
    for e in L.referenced_rects(g):
        out[G.rect_node_name(*e[1:])] = g.rect_ids(e)
    for n, e in g.names.items():
        if e[0] == 'rng':
            out[G.rect_node_name(*e[1:])] = g.rect_ids(e)
    return out


def out_of(a):
    """Out() of Write.tla on an abstract value -> ('empty',) / ('v', python)."""
    k = a['k']
    if k == 'z' or (k == 't' and not a['s']):
        return ('empty',)
    if k == 'e':
        return ('v', V.ERR2TXT[a['e']])
    if k == 'n':
        return ('v', V.num_of(a))
    if k == 't':
        return ('v', V.text_of(a))
    if k == 'b':
        return ('v', a['b'])
    return ('?', a)


def same_cell(exp, got):
    if exp[0] == 'empty':
        return got is None or got == ''
    v = exp[1]
    if isinstance(v, bool) or isinstance(got, bool):
        return isinstance(v, bool) and isinstance(got, bool) and v == got
    if isinstance(v, float) or isinstance(v, int):
        return isinstance(got, (int, float)) and V.close(float(v), float(got))
    return v == got


def read_books(books):
    """{(BOOK, SHEET, col, row): value} from openpyxl workbooks."""
    out = {}
    for b, wb in books.items():
        for ws in wb.worksheets:
            for row in ws.iter_rows():
                for c in row:
                    if c.value is not None:
                        out[(b.upper(), ws.title.upper(), c.column, c.row)] = c.value
    return out


def _work(item):
    f = impl.F()
    import openpyxl
    from formulas.excel import BOOK
    s, sem, sem_ov = item['seed'], item['sem'], item['sem_ov']
    g = make_wb(s)
    ovset = ovset_for(g, s)
    res = {'seed': s, 'problems': [], 'n': 0}
    d = tempfile.mkdtemp(prefix='verif-c16-')
    try:
        for label, semx, inp in (('plain', sem, None), ('inputs', sem_ov, inputs_of(g, ovset))):
            src = os.path.join(d, label)
            os.makedirs(src)
            m = R.build_files(g, src)
            original = read_books({b: openpyxl.load_workbook(os.path.join(src, b))
                                   for b in sorted({b for b, _ in g.sheets})})
            sol = m.calculate(inputs=inp) if inp else m.calculate()
            expected = {}
            for i, a in semx.items():
                if i in g.cells or i in ovset['ov']:
                    b, sh_, c, r = G.parse_id(i)
                    expected[(b, sh_, c, r)] = out_of(a)
            targets = []
            # (a) fresh books
            bk = m.write(solution=sol)
            targets.append(('fresh', {k: v[BOOK] for k, v in bk.items()}, {}))
            # (b) to disk and read back with plain openpyxl
            outd = os.path.join(d, label + '-out')
            m.write(solution=sol, dirpath=outd)
            disk = {}
            for fn in os.listdir(outd):
                disk[fn.upper()] = openpyxl.load_workbook(os.path.join(outd, fn))
            targets.append(('disk', disk, {}))
            # compare() with the model's own files
            try:
                diff = m.compare(*[os.path.join(outd, fn) for fn in sorted(os.listdir(outd))],
                                 solution=sol)
            except BaseException as ex:  # noqa
                if isinstance(ex, (KeyboardInterrupt, SystemExit)):
                    raise
                diff = 'raises %s: %s' % (type(ex).__name__, str(ex)[:150])
            if diff:
                res['problems'].append({'kind': 'compare-not-empty', 'case': label,
                                        'diff': str(diff)[:300]})
            if label == 'plain':
                # compare() without a solution means the model's own values, whatever was
                # calculated on it last (other inputs, a restricted set of outputs)
                try:
                    inp0 = inputs_of(g, ovset)
                    if inp0:
                        m.calculate(inputs=inp0)
                    forms0 = [i for i in g.order if g.cells[i]['k'] == 'f']
                    if forms0:
                        m.calculate(outputs=[G.node_name(forms0[0])])
                    diff0 = m.compare(*[os.path.join(outd, fn) for fn in sorted(os.listdir(outd))])
                except BaseException as ex:  # noqa
                    if isinstance(ex, (KeyboardInterrupt, SystemExit)):
                        raise
                    diff0 = 'raises %s: %s' % (type(ex).__name__, str(ex)[:150])
                if diff0:
                    res['problems'].append({'kind': 'compare-not-empty', 'case': 'own-values-after-other-use',
                                            'diff': str(diff0)[:300]})
                # another solution written over the same files and compared again: what was
                # read from those paths before must not show through
                inp2 = inputs_of(g, ovset)
                try:
                    sol_b = m.calculate(inputs=inp2)
                    m.write(solution=sol_b, dirpath=outd)
                    diff2 = m.compare(*[os.path.join(outd, fn) for fn in sorted(os.listdir(outd))],
                                      solution=sol_b)
                except BaseException as ex:  # noqa
                    if isinstance(ex, (KeyboardInterrupt, SystemExit)):
                        raise
                    diff2 = 'raises %s: %s' % (type(ex).__name__, str(ex)[:150])
                if diff2:
                    res['problems'].append({'kind': 'compare-not-empty', 'case': 'rewritten',
                                            'diff': str(diff2)[:300]})
            # (c) into the loaded books: everything else must stay
            bk2 = m.write(books=m.books, solution=sol)
            targets.append(('loaded', {k: v[BOOK] for k, v in bk2.items()}, original))
            for tname, books, prev in targets:
                got = read_books(books)
                keys = set(expected) | set(got) | set(prev)
                for key in keys:
                    res['n'] += 1
                    if key in expected:
                        ok = same_cell(expected[key], got.get(key))
                        exp_show = expected[key]
                    else:
                        # not solved: untouched (only meaningful for the loaded books)
                        if tname != 'loaded':
                            ok = key not in got
                            exp_show = ('empty',)
                        else:
                            ok = got.get(key) == prev.get(key)
                            exp_show = ('previous', prev.get(key))
                    if not ok:
                        res['problems'].append({
                            'kind': 'cell', 'case': label, 'target': tname,
                            'cell': '%s|%s|%d,%d' % key, 'expected': str(exp_show),
                            'observed': repr(got.get(key))})
    except BaseException as ex:  # noqa
        if isinstance(ex, (KeyboardInterrupt, SystemExit)):
            raise
        res['problems'].append({'kind': 'raises', 'exc': '%s: %s' % (type(ex).__name__, str(ex)[:300])})
    finally:
        shutil.rmtree(d, ignore_errors=True)
    return res


def main():
    rep = Report(PID)
    thorough = tier() == 'thorough'
    n = 120 if not thorough else 1000
    base = seed() * 100000 + 16000
    seeds = [base + i for i in range(n)]
    wd = workdir('c16')
    try:
        gens = {s: make_wb(s) for s in seeds}
        cases = []
        for s in seeds:
            g = gens[s]
            for ov in (None, ovset_for(g, s)['ov']):
                c = G.tla_case(g, ov)
                rg = ranges_of(g)
                rg['_NONE_'] = [['_NOCELL_']]
                c['ranges'] = rg
                c['prev'] = {'_NONE_': {'k': 'empty'}}
                cases.append(c)
        sem, cf = c03.tlc_sem(rep, wd, cases, '%d (workbook, inputs) cases' % len(cases))
        sub = os.path.join(wd, 'sub.json')
        json.dump(cases[:16 if not thorough else 40], open(sub, 'w'))
        r = run_tlc('Write', 'Write.cfg', env={'WB_FILE': sub}, timeout=2500, heap='8g')
        rep.add_tlc(r, 'Write: writing node by node in every order; WriteExact Untouched')
        items = [{'seed': s, 'sem': sem[2 * k], 'sem_ov': sem[2 * k + 1]} for k, s in enumerate(seeds)]
        res = pmap(_work, items, chunk=1)
        for rr in res:
            rep.count(max(1, rr['n']))
            rep.distinct(('wb', rr['seed']))
            for p in rr['problems']:
                empty_text = p['kind'] == 'compare-not-empty' and "''" in p.get('diff', '')
                sig = {'cat': 'compare-reports-empty-text'} if empty_text else \
                    {'kind': p['kind'], 'seed': rr['seed'], 'cell': p.get('cell'),
                     'target': p.get('target'), 'got': p.get('observed') or p.get('exc') or p.get('diff')}
                rep.violation(sig, {'workbook_seed': rr['seed'], 'problem': p,
                                    'inputs': {k: V.show(v) for k, v in ovset_for(gens[rr['seed']], rr['seed'])['ov'].items()},
                                    'workbook': c03.describe(gens[rr['seed']]),
                                    'how': 'm.write(solution=sol) / m.write(solution=sol, dirpath=) / '
                                           'm.write(books=m.books, solution=sol); openpyxl read-back'})
        rep.traces(len(res) * 6)
        rep.sample({'workbook': c03.describe(gens[seeds[0]]),
                    'inputs': {k: V.show(v) for k, v in ovset_for(gens[seeds[0]], seeds[0])['ov'].items()}})
        rep.cov['rule'] = ('seeded workbooks x {no inputs, inputs incl. a populated cell made blank} '
                           'x {fresh books, disk + read-back, loaded books}; distinct non-trivial = '
                           'distinct workbooks')
    finally:
        shutil.rmtree(wd, ignore_errors=True)
    return rep.finish()


if __name__ == '__main__':
    main_wrapper(main)
