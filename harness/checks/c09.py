"""C09 - JSON export and import preserve every value and are a fixed point.

Spec: Codec.tla (the escaping of text constants as a machine over all strings of
an adversarial alphabet: RoundTripOK, PlainUntouched), Workbook.tla (Sem of the
re-imported workbook), ShuntingYard.tla RenderFix (a formula's exported text
parses back to the same formula).  Binding: every string TLC enumerates is
stored as a text cell, exported, imported, compared; generated workbooks are
exported -> JSON -> imported: every cell of the re-imported model = Sem(W) (also
under supplied inputs), second export == first; exported formula text of C01's
accepted sequences re-parses to itself.
"""
import os
import json
import random
import shutil
import tempfile
from ..common import (Report, main_wrapper, seed, tier, shards, pmap, MachineryError,
                      NCPU, workdir)
from ..tlc import run_tlc, parse_obl
from .. import values as V
from .. import impl
from .. import wbgen as G
from .. import wbrun as R
from .. import lifecycle as L
from .. import parsecheck as P
from . import c03, c01

PID = 'C09'
GEN_KW = {'n_cells': 9, 'features': ['names', 'array']}


def _codec_batch(strings):
    """Store the strings as text cells of one sheet, export, import, compare."""
    f = impl.F()
    import openpyxl
    d = tempfile.mkdtemp(prefix='verif-c09-')
    probs = []
    try:
        wb = openpyxl.Workbook()
        ws = wb.active
        ws.title = 'S1'
        for i, s in enumerate(strings):
            c = ws.cell(row=i + 1, column=1)
            c.value = s
            c.data_type = 's'
        p = os.path.join(d, 'B.XLSX')
        wb.save(p)
        m1 = f.ExcelModel().loads(p).finish()
        d1 = m1.to_dict()
        dj = json.loads(json.dumps(d1))
        m2 = f.ExcelModel().from_dict(dj)
        s2 = m2.calculate()
        d2 = m2.to_dict()
        for i, s in enumerate(strings):
            k = "'[B.XLSX]S1'!A%d" % (i + 1)
            if k not in s2:
                probs.append((s, 'missing-after-import', None))
                continue
            v = V.alpha(R._first(s2[k].value))
            if v != V.T(s):
                probs.append((s, 'value-changed', V.show(v)))
            elif d2.get(k) != d1.get(k):
                probs.append((s, 'second-export-differs', '%r vs %r' % (d1.get(k), d2.get(k))))
    except BaseException as ex:  # noqa
        if isinstance(ex, (KeyboardInterrupt, SystemExit)):
            raise
        # find the culprit by halving when a batch fails as a whole
        if len(strings) > 1:
            h = len(strings) // 2
            return _codec_batch(strings[:h]) + _codec_batch(strings[h:])
        probs.append((strings[0], 'raises', '%s: %s' % (type(ex).__name__, str(ex)[:120])))
    finally:
        shutil.rmtree(d, ignore_errors=True)
    return probs


def codec(rep):
    strings = []
    for cfg in ('Codec.cfg', 'Codec2.cfg', 'Codec3.cfg'):
        r = run_tlc('Codec', cfg, timeout=600)
        rep.add_tlc(r, 'Codec/%s: all strings; RoundTripOK PlainUntouched' % cfg)
        o = parse_obl(r['out'])
        if cfg == 'Codec2.cfg':
            rnd = random.Random(seed() + 5)
            o = [x for x in o if x['esc']] + rnd.sample(o, 300)
        if cfg == 'Codec3.cfg' and tier() == 'quick':
            # leading white space, {=, sheet-qualified error names: every string the
            # specification says needs escaping, and a sample of the others
            rnd = random.Random(seed() + 6)
            esc = [x for x in o if x['esc']]
            rnd.shuffle(esc)
            o = esc[:5000] + rnd.sample(o, 1500)
        strings += [''.join(chr(c) for c in x['s']) for x in o if x['s']]
    strings = sorted(set(strings))
    res = pmap(_codec_batch, shards(strings, NCPU * 2), chunk=1)
    n = 0
    for part in res:
        for s, kind, det in part:
            rep.violation({'kind': 'text-constant-' + kind, 'text': s},
                          {'text': s, 'kind': kind, 'detail': det,
                           'how': 'text cell in .xlsx -> loads -> to_dict -> json -> from_dict'})
    for s in strings:
        rep.count()
        rep.distinct('txt:' + s)
    rep.sample({'text_constants': strings[100:106]})
    return len(strings)


def _drift_reason(a, b):
    """Why one key differs between the first and the second export (recorded findings)."""
    import re
    if a is None and b == '#EMPTY':
        # an unpopulated cell of a referenced range got a node of its own on re-import
        return 'blank-cell-of-a-range-materialised-on-re-import'
    if isinstance(a, str) and isinstance(b, str) and a.startswith('=') and \
            re.search(r'[+\-] ?[+\-]', a):
        fold = a
        for x, y in (('+ -', '- '), ('- -', '+ '), ('+ +', '+ '), ('- +', '- ')):
            fold = fold.replace(x, y)
        if fold == b:
            return 'sign-run-in-exported-text'
    return None


def _wb_work(item):
    impl.F()
    f = impl.F()
    s, sem, sem_ov = item['seed'], item['sem'], item['sem_ov']
    g = G.make(s, **GEN_KW)
    ovsets = L.make_ovsets(g, random.Random(s * 31 + 5), 1)
    out = {'seed': s, 'problems': [], 'n': 0}
    d = tempfile.mkdtemp(prefix='verif-c09w-')
    try:
        m1 = R.build_files(g, d) if item['path'] == 'file' else R.build_dict(g)
        s1 = m1.calculate()
        d1 = m1.to_dict()
        dj = json.loads(json.dumps(d1))
        m2 = f.ExcelModel().from_dict(dj)
        s2 = m2.calculate()
        d2 = m2.to_dict()
        if json.dumps(d1, sort_keys=True, default=str) != json.dumps(d2, sort_keys=True, default=str):
            diff = [k for k in set(d1) | set(d2) if d1.get(k) != d2.get(k)]
            groups = {}
            for k in sorted(diff):
                groups.setdefault(_drift_reason(d1.get(k), d2.get(k)), []).append(k)
            for why, keys in groups.items():
                out['problems'].append({'kind': 'second-export-differs', 'why': why, 'keys': keys[:6],
                                        'first': {k: d1.get(k) for k in keys[:3]},
                                        'second': {k: d2.get(k) for k in keys[:3]}})
        o1, o2 = R.observe_all(s1, g), R.observe_all(s2, g)
        for i, e in sem.items():
            if i not in g.cells:
                continue
            out['n'] += 1
            if o2.get(i) is None or not V.matches(e, o2[i]):
                out['problems'].append({'kind': 'reimported-value', 'cell': i,
                                        'expected': V.show(e),
                                        'observed': V.show(o2[i]) if o2.get(i) else None,
                                        'original_model': V.show(o1[i]) if o1.get(i) else None})
        # the same under supplied inputs
        ovset = ovsets[0]
        if not L.range_override_hazard(g, ovset):
            inp = L.concretise(g, ovset)
            s3 = m2.calculate(inputs=inp)
            o3 = R.observe_all(s3, g)
            for i, e in sem_ov.items():
                if i not in g.cells:
                    continue
                out['n'] += 1
                if o3.get(i) is None or not V.matches(e, o3[i]):
                    out['problems'].append({'kind': 'reimported-value-with-inputs', 'cell': i,
                                            'inputs': {k: V.show(v) for k, v in ovset['ov'].items()},
                                            'expected': V.show(e),
                                            'observed': V.show(o3[i]) if o3.get(i) else None})
    except BaseException as ex:  # noqa
        if isinstance(ex, (KeyboardInterrupt, SystemExit)):
            raise
        out['problems'].append({'kind': 'raises', 'exc': '%s: %s' % (type(ex).__name__, str(ex)[:200])})
    finally:
        shutil.rmtree(d, ignore_errors=True)
    return out


def workbooks(rep, wd):
    thorough = tier() == 'thorough'
    n = 100 if not thorough else 1000
    base = seed() * 100000 + 9000
    seeds = [base + i for i in range(n)]
    gens = {s: G.make(s, **GEN_KW) for s in seeds}
    cases = []
    for s in seeds:
        g = gens[s]
        ov = L.make_ovsets(g, random.Random(s * 31 + 5), 1)[0]
        cases.append(G.tla_case(g))
        cases.append(G.tla_case(g, L.ov_json(ov)))
    sem, cf = c03.tlc_sem(rep, wd, cases, '%d workbooks, each also with one input set' % n)
    items = [{'seed': s, 'sem': sem[2 * k], 'sem_ov': sem[2 * k + 1],
              'path': 'file' if k % 2 == 0 else 'dict'} for k, s in enumerate(seeds)]
    res = pmap(_wb_work, items, chunk=1)
    for r in res:
        rep.count(max(1, r['n']))
        rep.distinct(('wb', r['seed']))
        for p in r['problems']:
            rep.violation({'cat': p['why']} if p.get('why') else
                          {'kind': p['kind'], 'seed': r['seed'], 'cell': p.get('cell'),
                           'got': p.get('observed') or p.get('exc') or str(p.get('keys'))},
                          {'workbook_seed': r['seed'], 'problem': p,
                           'workbook': c03.describe(gens[r['seed']]),
                           'how': 'model -> to_dict -> json -> from_dict -> calculate / to_dict'})
    rep.traces(len(res))
    rep.sample({'workbook': c03.describe(gens[seeds[0]])})


def _reparse(texts):
    impl.F()
    out = []
    for toks, r in texts:
        text = '=' + r
        p = P.run_parser(text, want_value=False)
        if p.status != 'acc':
            out.append((toks, r, 'exported-text-does-not-parse', p.status))
        elif p.expr != r:
            out.append((toks, r, 'exported-text-parses-to-another-formula', p.expr))
    return out


def formulas_reparse(rep):
    obl = c01.tlc_obligations(rep, c01.CONFIGS)
    acc = [o for o in obl if o['g'] == 'acc' and not c01.sign_run(o['s'])]
    rnd = random.Random(seed() + 9)
    rnd.shuffle(acc)
    if tier() == 'quick':
        acc = acc[:6000]
    res = pmap(_reparse, shards([(o['s'], o['r']) for o in acc], NCPU * 2), chunk=1)
    for part in res:
        for toks, r, kind, det in part:
            import re
            if '%%' in r:
                sig = {'cat': 'double-percent', 'kind': 'rejected-valid'}
            elif re.search(r'[+\-] ?[+\-]', r) and kind == 'exported-text-parses-to-another-formula':
                sig = {'cat': 'sign-run-in-exported-text'}
            else:
                sig = {'kind': kind, 'text': r}
            rep.violation(sig, {'exported_text': r, 'kind': kind, 'detail': det, 'tokens': toks})
    for o in acc:
        rep.count()
        if len(o['s']) >= 3:
            rep.distinct('f:' + o['r'])
    rep.sample({'exported_formula_text': acc[0]['r']})


LONG_LITERALS = ['3.14159265', '1234.5678', '2.718281828', '0.1234567891', '123456789', '1.0000001',
                 '99999.99', '1E-7', '1.2345678E+10', '0.000123456789', '1234567.125', '007', '1.50',
                 '15E-1', '1E+3', '.25', '2.5E-10', '12345678901234', '0.30000000000000004']


def _literal_shard(lits):
    """A numeric literal inside a formula: the exported text reads back to the same value,
    and exporting again gives the same text."""
    f = impl.F()
    out = []
    for lit in lits:
        for ctx in ('=1*%s', '=SUM(%s,0)', '=-%s'):
            text = ctx % lit
            try:
                b = f.Parser().ast(text)[1]
                v1 = V.alpha(b.compile()())
                expr = b[-1].get_expr
                b2 = f.Parser().ast('=' + expr)[1]
                v2 = V.alpha(b2.compile()())
                expr2 = b2[-1].get_expr
            except BaseException as ex:  # noqa
                if isinstance(ex, (KeyboardInterrupt, SystemExit)):
                    raise
                out.append((text, 'raises', type(ex).__name__, None))
                continue
            if V.show(v1) != V.show(v2) or (v1.get('k') == 'f' and v1['x'] != v2.get('x')):
                out.append((text, 'exported-literal-reads-back-to-another-value', expr,
                            '%s -> %s' % (V.show(v1), V.show(v2))))
            elif expr2 != expr:
                out.append((text, 'second-export-differs', expr, expr2))
            else:
                out.append((text, None, expr, None))
        # the same through the model: to_dict -> from_dict
        try:
            m = f.ExcelModel().from_dict({'A1': 2, 'B1': '=A1*%s' % lit})
            a = V.alpha(m.calculate()['B1'])
            m2 = f.ExcelModel().from_dict(json.loads(json.dumps(m.to_dict())))
            b_ = V.alpha(m2.calculate()['B1'])
            if V.show(a) != V.show(b_) or (a.get('k') == 'f' and a['x'] != b_.get('x')):
                out.append(('B1==A1*%s' % lit, 'value-after-json-round-trip', V.show(a), V.show(b_)))
        except BaseException as ex:  # noqa
            if isinstance(ex, (KeyboardInterrupt, SystemExit)):
                raise
    return out


def literal_export(rep):
    from ..tlc import run_tlc, parse_obl
    r = run_tlc('NumLit', 'NumLit.cfg')
    rep.add_tlc(r, 'NumLit: prefix tree of literal strings (their values are what an export must keep)')
    lits = sorted({''.join(chr(c) for c in o['s']) for o in parse_obl(r['out'])
                   if abs(o['v'].get('e', 0)) <= 290}) + LONG_LITERALS
    for part in pmap(_literal_shard, shards(lits, NCPU * 2), chunk=1):
        for text, kind, expr, det in part:
            rep.count()
            rep.distinct('lit:' + text)
            if kind:
                rep.violation({'kind': kind, 'text': text},
                              {'formula': text, 'exported_text': expr, 'detail': det,
                               'how': 'Parser().ast(text): get_expr re-parsed and evaluated; the same through '
                                      'to_dict -> JSON -> from_dict'})


def main():
    rep = Report(PID)
    wd = workdir('c09')
    try:
        codec(rep)
        workbooks(rep, wd)
        formulas_reparse(rep)
        literal_export(rep)
        # which blank cells an export holds: exactly the blank nodes Assemble.tla's machine
        # creates for the layout (what drifts on re-import starts from this set)
        from .. import asm
        asm.check(rep, 1200 if tier() == 'quick' else 8000, seed() + 55, pid=PID, mode='export')
        rep.cov['rule'] = ('all strings over two adversarial alphabets stored as text '
                           'constants; seeded workbooks (names, arrays, cross-sheet/book '
                           'references, every constant kind) round-tripped through JSON, '
                           'also recalculated with inputs; exported text of C01\'s accepted '
                           'token sequences re-parsed; distinct non-trivial = distinct '
                           'strings, workbooks and formulas of >= 3 tokens')
    finally:
        shutil.rmtree(wd, ignore_errors=True)
    return rep.finish()


if __name__ == '__main__':
    main_wrapper(main)
