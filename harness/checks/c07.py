"""C07 - recalculation with overrides is exact and leaves no trace.

Workbook.tla gives Sem(W, ov) for every generated (workbook, override set) and
checks every schedule (NoFireOverridden, Partial ...); Lifecycle.tla generates
the histories (exhaustively to length 3 for its invariants, by simulation to
length 8 for replay).  Each history is replayed on one real model; after every
calculate() the solution must equal Sem(W, ov) - whatever came before - and
the recorded calculation is validated by CalcTrace.tla from Base(W, ov).
"""
import os
import json
import random
import shutil
import subprocess
from concurrent.futures import ThreadPoolExecutor
from ..common import (Report, main_wrapper, seed, tier, shards, MachineryError,
                      NCPU, workdir, PY, VERIF, REPO)
from ..tlc import run_tlc, parse_obl
from .. import values as V
from .. import wbgen as G
from .. import lifecycle as L
from . import c03

PID = 'C07'
NOV = 3


def lifecycle_histories(rep, n, maxlen, objects, sd, allowed=None):
    """Check Lifecycle.tla exhaustively (small) and sample n behaviours."""
    r = run_tlc('Lifecycle', 'Lifecycle.cfg', timeout=600)
    rep.add_tlc(r, 'Lifecycle: all histories up to length 3; HistoryFree Independent NoStaleRead')
    src = open('/verif/spec/LifecycleSim.cfg').read()
    src = src.replace('MaxLen = 8', 'MaxLen = %d' % maxlen).replace(
        'Objects = {"m"}', 'Objects = {%s}' % ', '.join('"%s"' % o for o in objects))
    tmp = 'LifecycleSim_run%d.cfg' % os.getpid()
    open(os.path.join('/verif/spec', tmp), 'w').write(src)
    try:
        r2 = run_tlc('Lifecycle', tmp, simulate='num=%d' % (n * 3), depth=maxlen + 1,
                     seed=sd, workers=1, timeout=600)
    finally:
        os.remove(os.path.join('/verif/spec', tmp))
    hs = parse_obl(r2['out'])
    if allowed:
        hs = [[op for op in h if op['k'] in allowed] for h in hs]
    hs = [h for h in hs if any(op['k'] == 'calc' for op in h)]
    if len(hs) < n // 2:
        raise MachineryError('Lifecycle simulation produced %d histories' % len(hs))
    return hs[:n]


def run_lcjobs(wd, gen_kw, sem_file, items):
    jobs = []
    for k, part in enumerate(shards(items, NCPU)):
        jf, of = os.path.join(wd, 'lj%d.json' % k), os.path.join(wd, 'lo%d.json' % k)
        json.dump({'gen': gen_kw, 'sem_file': sem_file, 'nov': NOV, 'items': part}, open(jf, 'w'))
        jobs.append((jf, of))

    def run(j):
        jf, of = j
        env = dict(os.environ)
        env['VERIF_REPO'] = REPO
        p = subprocess.run([PY, '-m', 'harness.lcjob', jf, of], cwd=VERIF, env=env,
                           stdout=subprocess.PIPE, stderr=subprocess.STDOUT, timeout=3000)
        if p.returncode != 0 or not os.path.exists(of):
            raise MachineryError('lcjob failed:\n' + p.stdout.decode()[-2000:])
        return json.load(open(of))
    out = []
    with ThreadPoolExecutor(max_workers=NCPU) as ex:
        for recs in ex.map(run, jobs):
            out.extend(recs)
    return out


def run_hdjobs(wd, gen_kw, items):
    """History dependence without expected values (harness/hdjob.py)."""
    jobs = []
    for k, part in enumerate(shards(items, NCPU)):
        jf, of = os.path.join(wd, 'hj%d.json' % k), os.path.join(wd, 'ho%d.json' % k)
        json.dump({'gen': gen_kw, 'items': part}, open(jf, 'w'))
        jobs.append((jf, of))

    def run(j):
        jf, of = j
        env = dict(os.environ)
        env['VERIF_REPO'] = REPO
        p = subprocess.run([PY, '-m', 'harness.hdjob', jf, of], cwd=VERIF, env=env,
                           stdout=subprocess.PIPE, stderr=subprocess.STDOUT, timeout=3000)
        if p.returncode != 0 or not os.path.exists(of):
            raise MachineryError('hdjob failed:\n' + p.stdout.decode()[-2000:])
        return json.load(open(of))
    out = []
    with ThreadPoolExecutor(max_workers=NCPU) as ex:
        for recs in ex.map(run, jobs):
            out.extend(recs)
    return out


def prepare_cases(seeds, gen_kw):
    gens, ovs, cases = {}, {}, []
    for s in seeds:
        g = G.make(s, **gen_kw)
        gens[s] = g
        ovsets = L.make_ovsets(g, random.Random(s * 31 + 5), NOV)
        ovs[s] = ovsets
        cases.append(G.tla_case(g))
        for o in ovsets:
            cases.append(G.tla_case(g, L.ov_json(o)))
    return gens, ovs, cases


def main():
    rep = Report(PID)
    thorough = tier() == 'thorough'
    n = 60 if not thorough else 600
    per = 2 if not thorough else 5
    base = seed() * 100000 + 7000
    seeds = [base + i for i in range(n)]
    wd = workdir('c07')
    try:
        gens, ovs, cases = prepare_cases(seeds, c03.GEN_KW)
        sem, cf = c03.tlc_sem(rep, wd, cases, '%d (workbook, override set) cases' % len(cases))
        semf = os.path.join(wd, 'sem.json')
        hists = lifecycle_histories(rep, n * per, 8, ['m'], seed() + 11,
                                    allowed={'calc', 'compile', 'todict', 'write', 'fcall'})
        items = []
        for k, s in enumerate(seeds):
            for q in range(per):
                h = hists[(k * per + q) % len(hists)]
                items.append({'seed': s, 'idx': k, 'path': 'dict' if q % 2 == 0 else 'file',
                              'hist': h, 'use_names': q % 2 == 1,
                              'observe': ['calc'], 'trace': q == 0})
        recs = run_lcjobs(wd, c03.GEN_KW, semf, items)
        traces, trace_of = [], []
        for r in recs:
            g = gens[r['seed']]
            rep.count(max(1, r['observations']))
            if len(r['hist']) >= 3:
                rep.distinct(('h', r['seed'], json.dumps(r['hist'])))
            if r['exc']:
                rep.violation({'kind': 'raises', 'seed': r['seed'], 'exc': r['exc'].split(':')[0]},
                              {'workbook_seed': r['seed'], 'history': r['hist'], 'exc': r['exc'],
                               'workbook': c03.describe(g)})
            for p in r['problems']:
                j = p['op'].get('j', 0)
                hazard = j and L.range_override_hazard(g, ovs[r['seed']][j - 1])
                alias = False
                if j and r.get('use_names'):
                    tg = [e[1] for e in g.names.values() if e[0] == 'ref']
                    # (a name for the one-cell range A4:A4 is a second name of A4 as well)
                    tg += [G.cid(e[1], e[2], e[3], e[4]) for e in g.names.values()
                           if e[0] == 'rng' and (e[3], e[4]) == (e[5], e[6])]
                    alias = any(tg.count(i) > 1 for i in ovs[r['seed']][j - 1]['ov'])
                if j and r.get('use_names') and L.name_override_hazard(g, ovs[r['seed']][j - 1]):
                    hazard = True
                sig = {'cat': 'range-override-with-unpopulated-or-formula-member'} if hazard else \
                    {'cat': 'override-through-one-of-two-names-of-one-cell'} if alias else \
                    {'kind': p['kind'], 'seed': r['seed'], 'cell': p.get('cell'),
                     'op': json.dumps(p['op']), 'got': p.get('observed') or p.get('exc')}
                rep.violation(sig,
                              {'workbook_seed': r['seed'], 'path': r['path'], 'history': r['hist'],
                               'problem': p, 'override_sets': [
                                   {k: V.show(v) for k, v in o['ov'].items()} for o in ovs[r['seed']]],
                               'workbook': c03.describe(g),
                               'how': 'one model, the history applied in order; after each '
                                      'calculate() every cell compared with Sem(W, ov)'})
            for t in r['traces']:
                traces.append({'w': t['w'], 'events': t['events'], 'total': t['total']})
                trace_of.append((r, t))
        rejected = c03.validate_traces(rep, wd, cf, traces, PID)
        ok = 0
        for k, (r, t) in enumerate(trace_of):
            if k in rejected:
                posn, clause = rejected[k]
                j = (t['w'] - 1) % (NOV + 1)
                g = gens[r['seed']]
                hz = j and (L.range_override_hazard(g, ovs[r['seed']][j - 1]) or (
                    r.get('use_names') and L.name_override_hazard(g, ovs[r['seed']][j - 1])))
                rep.violation({'cat': 'range-override-with-unpopulated-or-formula-member'} if hz else
                              {'kind': 'trace-' + clause, 'seed': r['seed'], 'step': t['step']},
                              {'workbook_seed': r['seed'], 'history': r['hist'], 'step': t['step'],
                               'clause': clause, 'event_index': posn,
                               'event': t['events'][posn - 1] if posn - 1 < len(t['events']) else None,
                               'workbook': c03.describe(gens[r['seed']])})
            else:
                ok += 1
        rep.traces(ok + len(recs))
        # HistoryFree, observed directly: the last calculation of a sequence on a used
        # model against the same calculation on a fresh model
        nh = 400 if not thorough else 4000
        hitems = [{'seed': base + 50000 + i, 'path': 'dict' if i % 4 else 'file'} for i in range(nh)]
        for r in run_hdjobs(wd, c03.GEN_KW, hitems):
            rep.count(max(1, r['n']))
            rep.distinct(('hd', r['seed']))
            if r.get('exc'):
                continue        # a calculation that raises is judged by the replay above
            for p in r['problems'][:3]:
                rep.violation({'kind': 'history-dependence', 'seed': r['seed'], 'cell': p['cell']},
                              {'workbook_seed': r['seed'], 'path': r['path'],
                               'inputs_in_order': r['seq'], 'problem': p,
                               'workbook': c03.describe(G.make(r['seed'], **c03.GEN_KW)),
                               'how': 'the calculations run in order on one model; the last one '
                                      'repeated on a fresh model; Lifecycle!HistoryFree'})
        rep.cov['history_dependence_sequences'] = nh
        rep.sample({'history': recs[0]['hist'], 'workbook': c03.describe(gens[recs[0]['seed']]),
                    'override_sets': [{k: V.show(v) for k, v in o['ov'].items()}
                                      for o in ovs[recs[0]['seed']]]})
        rep.cov['rule'] = ('seeded workbooks x 3 override sets (constants, formula cells, '
                           'unpopulated cells of referenced ranges, whole ranges, names) x '
                           'histories of length <= 8 sampled from Lifecycle.tla; distinct '
                           'non-trivial = distinct (workbook, history) with >= 3 operations')
        rep.cov['histories'] = len(recs)
        # Assemble.tla: the inverse side of the range wiring - a value supplied through a
        # requested rectangle reaches every populated cell inside it (other layouts than
        # the sample C03 takes)
        from .. import asm
        asm.check(rep, 1000 if not thorough else 8000, seed() + 77, pid=PID)
    finally:
        shutil.rmtree(wd, ignore_errors=True)
    return rep.finish()


if __name__ == '__main__':
    main_wrapper(main)
