"""C20 - calendar and number-system conversions are exact inverses.

Calendar.tla (month machine over 1900-01 .. 9999-12: LenOK, LastSerial,
Feb1900, WeekdayStep ...), TimeOfDay.tla (all 86 400 seconds), Radix.tla
(prefix tree of numerals in base 2 / 8 / 16 with limb arithmetic: LimbsOK,
NegRange, AppendLaw) and Roman.tla (Val(Classic(n)) = n).  Every month state is
an obligation: every (quick: boundary + sampled) day of it is checked on the
real YEAR / MONTH / DAY / DATE / WEEKDAY; every second on TIME / HOUR / MINUTE /
SECOND; every enumerated numeral on X2DEC / DEC2X and the cross conversions;
sampled long numerals are validated by Radix's trace part; ROMAN(n, form) for
all 4000 x 5 by Roman's trace part, ARABIC on the code.
"""
import os
import json
import random
import shutil
from ..common import (Report, main_wrapper, seed, tier, shards, pmap, MachineryError,
                      NCPU, workdir)
from ..tlc import run_tlc, parse_obl
from .. import values as V
from .. import impl

PID = 'C20'
MODES = [1, 2, 3, 11, 12, 13, 14, 15, 16, 17]


def fn(name):
    impl.F()
    from formulas.functions import get_functions
    f = get_functions()[name]
    return f['function'] if isinstance(f, dict) else f


def num(v):
    a = V.alpha(v)
    return a['x'] if a.get('k') == 'f' else a


def _months(args):
    months, full, sd = args
    impl.F()
    YEAR, MONTH, DAY, DATE, WEEKDAY = (fn(n) for n in ('YEAR', 'MONTH', 'DAY', 'DATE', 'WEEKDAY'))
    rnd = random.Random(sd)
    probs, n = [], 0
    for mo in months:
        y, m, first, ln, wd = mo['y'], mo['m'], mo['first'], mo['len'], mo['wd']
        days = range(1, ln + 1) if full else sorted(
            {1, 2, 3, ln - 2, ln - 1, ln} | {rnd.randint(1, ln) for _ in range(2)})
        for d in days:
            s = first + d - 1
            n += 1
            got = (num(YEAR(s)), num(MONTH(s)), num(DAY(s)))
            if got != (y, m, d):
                probs.append(('ymd', s, [y, m, d], [str(x) for x in got]))
            back = num(DATE(y, m, d))
            if back != s:
                probs.append(('date', [y, m, d], s, str(back)))
            for k, md in enumerate(MODES):
                lo = 0 if md == 3 else 1
                want = (wd[k] - lo + d - 1) % 7 + lo
                g = num(WEEKDAY(s, md))
                if g != want:
                    probs.append(('weekday', [s, md], want, str(g)))
    return n, probs


SHIFTS = [-13, -12, -1, 0, 1, 11, 12, 25]


def _beyond(months):
    """EDATE / WEEKNUM / ISOWEEKNUM against Calendar.tla - beyond what C20 states:
    agreement is counted for the evidence, a disagreement is not a C20 violation."""
    impl.F()
    EDATE, WEEKNUM, ISOWEEKNUM = fn('EDATE'), fn('WEEKNUM'), fn('ISOWEEKNUM')
    agree = {'EDATE': 0, 'WEEKNUM': 0, 'ISOWEEKNUM': 0}
    differ = {'EDATE': [], 'WEEKNUM': [], 'ISOWEEKNUM': []}

    def note(name, args, want, got):
        g = num(got)
        ok = (g == want) if want != -1 else (V.alpha(got) == V.E('NUM'))
        if ok:
            agree[name] += 1
        elif len(differ[name]) < 5:
            differ[name].append({'args': args, 'spec': want if want != -1 else '#NUM!',
                                 'code': g if isinstance(g, float) else V.show(g)})
        else:
            differ[name].append(None)
    for mo in months:
        first, ln = mo['first'], mo['len']
        last = first + ln - 1
        for k, (e1, e2) in zip(SHIFTS, mo['ed']):
            note('EDATE', [first, k], e1, EDATE(first, k))
            note('EDATE', [last, k], e2, EDATE(last, k))
        for s, t, w in ((first, 1, mo['wk'][0]), (first, 2, mo['wk'][1]), (last, 1, mo['wk'][2]),
                        (last, 2, mo['wk'][3])):
            note('WEEKNUM', [s, t], w, WEEKNUM(s, t))
        if first >= 61:
            note('ISOWEEKNUM', [first], mo['iso'][0], ISOWEEKNUM(first))
            note('ISOWEEKNUM', [last], mo['iso'][1], ISOWEEKNUM(last))
    return agree, {k: (len(v), [x for x in v if x]) for k, v in differ.items()}


def _seconds(items):
    impl.F()
    TIME, HOUR, MINUTE, SECOND = (fn(n) for n in ('TIME', 'HOUR', 'MINUTE', 'SECOND'))
    probs = []
    for o in items:
        h, m, s = o['hms']
        t = TIME(h, m, s)
        got = (num(HOUR(t)), num(MINUTE(t)), num(SECOND(t)))
        if got != (h, m, s):
            probs.append(('hms', o['t'], [h, m, s], [str(x) for x in got]))
        frac = num(t)
        if not isinstance(frac, float) or not V.close(frac, o['t'] / 86400.0, 1e-12):
            probs.append(('time', o['t'], o['t'] / 86400.0, str(frac)))
    return len(items), probs


DIG = '0123456789ABCDEF'
NAMES = {2: 'BIN', 8: 'OCT', 16: 'HEX'}


def limbs(x):
    return [x >> 20, x & ((1 << 20) - 1)]


def _radix(args):
    base, items = args
    impl.F()
    X2DEC, DEC2X = fn('%s2DEC' % NAMES[base]), fn('DEC2%s' % NAMES[base])
    others = [b for b in (2, 8, 16) if b != base]
    probs = []
    for o in items:
        s = ''.join(DIG[d] for d in o['ds'])
        want = (o['mag'][0] << 20) + o['mag'][1] if o['neg'] else (o['u'][0] << 20) + o['u'][1]
        want = -want if o['neg'] else want
        got = num(X2DEC(s))
        if got != want:
            probs.append(('x2dec', [base, s], want, str(got)))
            continue
        canon = s if o['neg'] else (s.lstrip('0') or '0')
        back = V.alpha(DEC2X(want))
        if back != V.T(canon):
            probs.append(('dec2x', [base, want], canon, V.show(back)))
        # places: padding for non-negative numbers, #NUM! when too short
        if not o['neg']:
            p = len(canon) + 2
            if p <= 10 and V.alpha(DEC2X(want, p)) != V.T(canon.zfill(p)):
                probs.append(('places-pad', [base, want, p], canon.zfill(p), V.show(V.alpha(DEC2X(want, p)))))
            if len(canon) > 1 and V.alpha(DEC2X(want, len(canon) - 1)) != V.E('NUM'):
                probs.append(('places-short', [base, want, len(canon) - 1], '#NUM!',
                              V.show(V.alpha(DEC2X(want, len(canon) - 1)))))
        # cross conversions agree with going through decimal
        for b2 in others:
            f2 = fn('%s2%s' % (NAMES[base], NAMES[b2]))
            lim = {2: 1 << 9, 8: 1 << 29, 16: 1 << 39}[b2]
            direct = V.alpha(f2(s))
            if -lim <= want < lim:
                via = V.alpha(fn('DEC2%s' % NAMES[b2])(want))
                if direct != via:
                    probs.append(('cross', [base, b2, s], V.show(via), V.show(direct)))
            elif direct != V.E('NUM'):
                probs.append(('cross-out-of-range', [base, b2, s], '#NUM!', V.show(direct)))
    return len(items), probs


def main():
    rep = Report(PID)
    thorough = tier() == 'thorough'
    wd = workdir('c20')
    try:
        # ---- calendar -------------------------------------------------------
        r = run_tlc('Calendar', 'Calendar.cfg', timeout=900)
        rep.add_tlc(r, 'Calendar: 97 200 month states; LenOK LastSerial Feb1900 Mar1900 '
                       'WeekdayStep WeekdayRange ClosedForm EDateBack WeekRange')
        months = parse_obl(r['out'])
        if len(months) != 97200:
            raise MachineryError('expected 97200 months, got %d' % len(months))
        parts = shards(months, NCPU * 4)
        n_days = 0
        for k, (n, probs) in enumerate(pmap(_months, [(p, thorough, seed() * 1000 + i)
                                                      for i, p in enumerate(parts)], chunk=1)):
            n_days += n
            for kind, what, want, got in probs[:50]:
                rep.violation({'kind': 'calendar-' + kind, 'at': json.dumps(what)},
                              {'kind': kind, 'input': what, 'expected': want, 'observed': got,
                               'how': 'YEAR/MONTH/DAY(serial), DATE(y,m,d), WEEKDAY(serial, mode) '
                                      'from the function table'})
        rep.count(n_days)
        # beyond the property: EDATE / WEEKNUM / ISOWEEKNUM on one month in seven
        pick = [mo for mo in months if (mo['y'] * 12 + mo['m']) % 7 == seed() % 7]
        tot = {'EDATE': [0, 0, []], 'WEEKNUM': [0, 0, []], 'ISOWEEKNUM': [0, 0, []]}
        for agree, differ in pmap(_beyond, shards(pick, NCPU * 2), chunk=1):
            for k in tot:
                tot[k][0] += agree[k]
                tot[k][1] += differ[k][0]
                tot[k][2] = (tot[k][2] + differ[k][1])[:5]
        rep.cov['beyond_property'] = {
            'note': 'EDATE, WEEKNUM, ISOWEEKNUM are defined in Calendar.tla from the same calendar; '
                    'C20 does not state them, so disagreements are listed here and are not violations',
            'functions': {k: {'agree': v[0], 'differ': v[1], 'examples_of_difference': v[2]}
                          for k, v in tot.items()}}
        for mo in months[::1000]:
            rep.distinct(('mo', mo['y'], mo['m']))
        # day 0 and the domain ends
        YEAR, DAY, MONTH, DATE = fn('YEAR'), fn('DAY'), fn('MONTH'), fn('DATE')
        if (num(YEAR(0)), num(MONTH(0)), num(DAY(0))) != (1900, 1, 0):
            rep.violation({'kind': 'calendar-day-zero'}, {'observed': str((YEAR(0), MONTH(0), DAY(0)))})
        for bad in (-1, 2958466):
            if V.alpha(DAY(bad)) != V.E('NUM'):
                rep.violation({'kind': 'calendar-out-of-range', 'at': bad},
                              {'input': bad, 'observed': V.show(V.alpha(DAY(bad)))})
        # ---- time of day ---------------------------------------------------------
        r = run_tlc('TimeOfDay', 'TimeOfDay.cfg', timeout=900)
        rep.add_tlc(r, 'TimeOfDay: 86 400 seconds; Inverse')
        secs = parse_obl(r['out'])
        for n, probs in pmap(_seconds, shards(secs, NCPU * 2), chunk=1):
            rep.count(n)
            for kind, what, want, got in probs[:50]:
                rep.violation({'kind': 'time-' + kind, 'at': what},
                              {'second_of_day': what, 'expected': want, 'observed': got})
        # ---- radix -------------------------------------------------------------------
        rnd = random.Random(seed() * 17 + 3)
        for base, cfg in ((2, 'Radix2.cfg'), (8, 'Radix8.cfg'), (16, 'Radix16.cfg')):
            r = run_tlc('Radix', cfg, timeout=900)
            rep.add_tlc(r, 'Radix base %d: prefix tree of numerals; LimbsOK NegRange AppendLaw' % base)
            items = parse_obl(r['out'])
            if base != 2 and not thorough:
                rnd.shuffle(items)
                items = items[:20000]
            for n, probs in pmap(_radix, [(base, p) for p in shards(items, NCPU * 2)], chunk=1):
                rep.count(n)
                for kind, what, want, got in probs[:50]:
                    cat = 'places-ignored-for-negative' if False else None
                    rep.violation({'kind': 'radix-' + kind, 'at': json.dumps(what)},
                                  {'kind': kind, 'input': what, 'expected': want, 'observed': got})
            for o in items[:300]:
                rep.distinct(('rx', base, ''.join(map(str, o['ds']))))
            # sampled long numerals with all digits: validated by the trace part
            if base != 2:
                X2DEC = fn('%s2DEC' % NAMES[base])
                tr = []
                for _ in range(3000 if not thorough else 60000):
                    ln = rnd.choice([10, 10, 10, 9, 8, 5])
                    ds = [rnd.randrange(base) for _ in range(ln)]
                    v = num(X2DEC(''.join(DIG[d] for d in ds)))
                    if not isinstance(v, float):
                        tr.append({'ds': ds, 'neg': False, 'hi': -1, 'lo': -1})
                        continue
                    v = int(v)
                    tr.append({'ds': ds, 'neg': v < 0, 'hi': abs(v) >> 20, 'lo': abs(v) & ((1 << 20) - 1)})
                tf = os.path.join(wd, 'rx%d.json' % base)
                json.dump(tr, open(tf, 'w'))
                rt = run_tlc('Radix', 'RadixTrace%d.cfg' % base, env={'TRACE_FILE': tf}, workers=1,
                             allow_error=True, timeout=900)
                if not rt['ok']:
                    raise MachineryError('Radix trace failed:\n%s' % (rt['error'] or rt['out'][-1500:]))
                rep.add_tlc(rt, 'Radix trace part, base %d: %d sampled numerals' % (base, len(tr)))
                rej = [int(l.split(',')[1].strip(' >')) for l in rt['out'].splitlines()
                       if l.strip().startswith('<<"REJECT"')]
                for i in rej[:30]:
                    rep.violation({'kind': 'radix-trace', 'at': json.dumps(tr[i - 1]['ds'])},
                                  {'base': base, 'event': tr[i - 1]})
                rep.traces(len(tr) - len(rej))
        # out of range decimals
        for name, lim in (('DEC2BIN', 1 << 9), ('DEC2OCT', 1 << 29), ('DEC2HEX', 1 << 39)):
            for x in (lim, -lim - 1):
                a = V.alpha(fn(name)(x))
                if a != V.E('NUM'):
                    rep.violation({'kind': 'radix-out-of-range', 'at': '%s(%d)' % (name, x)},
                                  {'observed': V.show(a)})
            for x in (lim - 1, -lim):
                if V.alpha(fn(name)(x)).get('k') != 't':
                    rep.violation({'kind': 'radix-domain-end', 'at': '%s(%d)' % (name, x)},
                                  {'observed': V.show(V.alpha(fn(name)(x)))})
        # ---- roman ---------------------------------------------------------------------
        r = run_tlc('Roman', 'Roman.cfg', timeout=900)
        rep.add_tlc(r, 'Roman: Val(Classic(n)) = n for 0..3999')
        ROMAN, ARABIC = fn('ROMAN'), fn('ARABIC')
        tr = []
        for n in range(0, 4000):
            for form in range(5):
                a = V.alpha(ROMAN(n, form))
                rep.count()
                if a.get('k') != 't':
                    rep.violation({'kind': 'roman-not-text', 'at': '%d,%d' % (n, form)},
                                  {'observed': V.show(a)})
                    continue
                s = V.text_of(a)
                tr.append({'n': n, 'form': form, 'res': list(s)})
                back = num(ARABIC(s)) if s else 0.0
                if back != n:
                    rep.violation({'kind': 'arabic-of-roman', 'at': '%d,%d' % (n, form)},
                                  {'roman': s, 'arabic': str(back)})
        tf = os.path.join(wd, 'roman.json')
        json.dump([t for t in tr if t['res']], open(tf, 'w'))
        rt = run_tlc('Roman', 'RomanTrace.cfg', env={'TRACE_FILE': tf}, workers=1, allow_error=True,
                     timeout=900)
        if not rt['ok']:
            raise MachineryError('Roman trace failed:\n%s' % (rt['error'] or rt['out'][-1500:]))
        rep.add_tlc(rt, 'Roman trace part: ROMAN(n, form) for all 4000 x 5')
        kept = [t for t in tr if t['res']]
        rej = {}
        for l in rt['out'].splitlines():
            if l.strip().startswith('<<"REJECT"'):
                f_ = [x.strip(' <>"') for x in l.split(',')]
                rej.setdefault(int(f_[1]), f_[2])
        for i, c in list(rej.items())[:30]:
            t = kept[i - 1]
            rep.violation({'kind': 'roman-' + c, 'at': '%d,%d' % (t['n'], t['form'])},
                          {'n': t['n'], 'form': t['form'], 'result': ''.join(t['res'])})
        rep.traces(len(kept) - len(rej))
        for x in (4000, -1):
            a = V.alpha(ROMAN(x))
            if a.get('k') != 'e':
                rep.violation({'kind': 'roman-out-of-domain', 'at': x}, {'observed': V.show(a)})
        rep.sample({'month': months[1], 'checked': 'YEAR/MONTH/DAY/DATE/WEEKDAY x 10 modes'})
        rep.sample({'numeral': 'FFFFFFFFFF', 'expected': -1})
        rep.cov['rule'] = ('every month 1900-01..9999-12 (quick: 6 boundary + 2 sampled days each; '
                           'thorough: every day), every second of the day, all binary numerals, '
                           'octal/hex numerals over boundary digits + sampled, ROMAN for all 4000 x 5; '
                           'distinct non-trivial counted on a subsample of month and numeral cases')
        rep.cov['days_checked'] = n_days
        rep.cov['exhaustive'] = thorough
    finally:
        shutil.rmtree(wd, ignore_errors=True)
    return rep.finish()


if __name__ == '__main__':
    main_wrapper(main)
