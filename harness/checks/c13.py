"""C13 - volatile functions are never frozen and are seen consistently.

Volatile.tla: obtaining an executable object never fixes a volatile value
(NeverFrozen, with ExcelModel.compile's freezing as a named deviation) and
every use evaluates every site exactly once (OncePerEpoch).  Binding: formulas
with a volatile call at every depth / argument position and workbooks with
volatile cells, dependents and volatile defined names are turned into
executable objects in every way (parsed+compiled, loaded from file, imported
from a dictionary, re-imported from JSON, deep-copied, dilled, compiled from
the model); each is used four times with the harness' clock and random seed
changed between uses: a value must change exactly when (clock, seed) change,
dependents of one volatile cell must see one value, RAND in [0,1),
RANDBETWEEN an integer in bounds.  The vol events of hook H5 (function,
compiling flag) of every object are validated by the trace part of
Volatile.tla.
"""
import os
import copy
import json
import random
import shutil
import datetime
import tempfile
from ..common import (Report, main_wrapper, seed, tier, shards, pmap, MachineryError,
                      NCPU, workdir)
from ..tlc import run_tlc
from .. import values as V
from .. import impl

PID = 'C13'

VOL = {'RAND()': 'rand', 'NOW()': 'now', 'TODAY()': 'today', 'RANDBETWEEN(1,1000000)': 'randbetween'}
WRAP = [
    '%s', '1+%s', '%s*2+1', 'SUM(1,%s)', 'SUM(%s,%s)', 'IF(TRUE,%s,1)', 'IF(1>0,%s+1,2)',
    'IFERROR(%s,0)', 'IFERROR(1/0,%s)', 'MAX(0,%s)', '-(%s)', '(%s)^1', 'ROUND(%s,12)+0',
    'IF(TRUE,IF(TRUE,SUM(0,%s),1),2)', 'SUM(IF(TRUE,%s,0),1)', 'ABS(MIN(1000000000,%s+1))',
]


class FakeClock:
    """Replaces datetime.datetime inside formulas.functions.date."""
    current = datetime.datetime(2021, 3, 4, 5, 6, 7)
    tick = None          # a timedelta: the clock advances by it at every reading
    reads = []

    def __init__(self, real):
        self.real = real

    def __call__(self, *a, **kw):
        return self.real(*a, **kw)

    def __getattr__(self, k):
        return getattr(self.real, k)

    def now(self, *a):
        return FakeClock.current


CLOCKS = [datetime.datetime(2021, 3, 4, 5, 6, 7), datetime.datetime(2021, 3, 5, 6, 7, 9),
          datetime.datetime(2022, 7, 9, 1, 2, 3)]


def set_world(k):
    """World k: a clock reading and a random seed."""
    import numpy as np
    FakeClock.current = CLOCKS[k]
    np.random.seed(1000 + 17 * k)


def install_clock():
    impl.F()
    import formulas.functions.date as D

    class _DT:
        pass
    mod = type(D.datetime)('datetime_fake')
    for k in dir(D.datetime):
        if not k.startswith('__'):
            setattr(mod, k, getattr(D.datetime, k))
    real = D.datetime.datetime

    class dt(real):
        @classmethod
        def now(cls, tz=None):
            c = FakeClock.current
            if FakeClock.tick is not None:
                # a clock that moves while the formula is evaluated: every reading is later
                FakeClock.reads.append(c)
                FakeClock.current = c + FakeClock.tick
                return cls(c.year, c.month, c.day, c.hour, c.minute, c.second, c.microsecond)
            return cls(c.year, c.month, c.day, c.hour, c.minute, c.second)
    mod.datetime = dt
    import sys as _sys
    _sys.modules['datetime_fake'] = mod      # so that dill can find it again
    D.datetime = mod


def scalar(v):
    import numpy as np
    v = v.value if hasattr(v, 'ranges') else v
    if isinstance(v, np.ndarray):
        v = v.ravel()[0] if v.size else None
    a = V.alpha(v)
    return a


def fresh_verdict(vals, depends_on):
    """vals: observations in worlds 0, 1, 2, 0.  depends_on: 'clock' / 'seed'."""
    probs = []
    if any(a.get('k') != 'f' for a in vals):
        return ['not-a-number:%s' % [V.show(a) for a in vals]]
    x = [a['x'] for a in vals]
    if x[0] == x[1] or x[1] == x[2] or x[0] == x[2]:
        probs.append('stale: same value in different worlds %s' % x)
    if depends_on in ('now', 'today') and x[0] != x[3]:
        probs.append('not a function of the clock: %s vs %s at the same reading' % (x[0], x[3]))
    return probs


def use_formula(text):
    """Parser -> compile -> 4 uses; plus deep copy and dill of the function."""
    f = impl.F()
    from formulas import _verif
    import dill
    out = []
    _verif.drain()
    set_world(0)
    func = f.Parser().ast(text)[1].compile()
    comp = [e for e in _verif.drain() if e['ev'] == 'vol']
    objs = {'formula-compile': func, 'copy': copy.deepcopy(func), 'dill': dill.loads(dill.dumps(func))}
    for way, fn in objs.items():
        vals, epochs = [], []
        for k in (0, 1, 2, 0):
            set_world(k)
            _verif.drain()
            vals.append(scalar(fn()))
            epochs.append([{'fn': e['fn'], 'compiling': e['compiling']}
                           for e in _verif.drain() if e['ev'] == 'vol'])
        out.append({'way': way, 'vals': vals, 'compile_events': [
            {'fn': e['fn'], 'compiling': e['compiling']} for e in comp], 'epochs': epochs})
    return out


def _formula_shard(items):
    install_clock()
    res = []
    for text, nsites, kind in items:
        try:
            for r in use_formula(text):
                r.update({'text': text, 'nsites': nsites, 'kind': kind})
                res.append(r)
        except BaseException as ex:  # noqa
            if isinstance(ex, (KeyboardInterrupt, SystemExit)):
                raise
            res.append({'text': text, 'exc': '%s: %s' % (type(ex).__name__, str(ex)[:200])})
    return res


# ---------------------------------------------------------------------------
# workbooks with volatile cells, dependents and volatile defined names
# ---------------------------------------------------------------------------
def wb_spec(k):
    vols = list(VOL)
    v1, v2 = vols[k % 4], vols[(k + 1) % 4]
    cells = {
        'A1': '=%s' % v1, 'A2': '=A1+1', 'A3': '=A1*2', 'A4': '=A2-A1',
        'B1': '=IF(TRUE,%s,0)' % v2, 'B2': '=B1+0', 'B3': '=SUM(A1,B1)',
        'C1': 5, 'C2': '=C1+1',
    }
    names = {'VOLNAME': v1 if k % 2 == 0 else 'TODAY()+30'}
    cells['D1'] = '=VOLNAME+0'
    return cells, names, (v1, v2)


def build_wb(k, way, d):
    f = impl.F()
    cells, names, vs = wb_spec(k)
    if way in ('model-dict', 'json', 'copy-dict'):
        dd = {"'[V.XLSX]S'!%s" % c: (v if not isinstance(v, str) else v.replace('VOLNAME', "'[V.XLSX]'!VOLNAME")
                                     .replace('A1', "'[V.XLSX]S'!A1").replace('A2', "'[V.XLSX]S'!A2")
                                     .replace('B1', "'[V.XLSX]S'!B1").replace('C1', "'[V.XLSX]S'!C1"))
              for c, v in cells.items()}
        for n, e in names.items():
            dd["'[V.XLSX]'!%s" % n] = '=' + e
        m = f.ExcelModel().from_dict(dd)
        if way == 'json':
            m = f.ExcelModel().from_dict(json.loads(json.dumps(m.to_dict())))
        return m
    import openpyxl
    from openpyxl.workbook.defined_name import DefinedName
    wb = openpyxl.Workbook()
    ws = wb.active
    ws.title = 'S'
    for c, v in cells.items():
        ws[c] = v
    for n, e in names.items():
        wb.defined_names[n] = DefinedName(n, attr_text=e)
    p = os.path.join(d, 'V.XLSX')
    wb.save(p)
    return f.ExcelModel().loads(p).finish()


def use_model(k, way):
    impl.F()
    from formulas import _verif
    import dill
    d = tempfile.mkdtemp(prefix='verif-c13-')
    try:
        set_world(0)
        _verif.drain()
        base = {'model-file': 'model-file', 'model-dict': 'model-dict', 'json': 'json',
                'copy': 'model-file', 'dill': 'model-dict', 'model-compile': 'model-dict'}[way]
        m = build_wb(k, base, d)
        if way == 'copy':
            m.calculate()
            _verif.drain()           # (a used model is copied: that use is not part of obtaining)
            m = copy.deepcopy(m)
        elif way == 'dill':
            m = dill.loads(dill.dumps(m))
        pre = "'[V.XLSX]S'!"
        outs = [pre + c for c in ('A1', 'A2', 'A3', 'A4', 'B1', 'B2', 'B3', 'C2', 'D1')]
        fn = None
        if way == 'model-compile':
            fn = m.compile(inputs=[pre + 'C1'], outputs=outs)
        comp = [{'fn': e['fn'], 'compiling': e['compiling']} for e in _verif.drain() if e['ev'] == 'vol']
        obs, epochs = [], []
        for w in (0, 1, 2, 0):
            set_world(w)
            _verif.drain()
            if fn is not None:
                res = fn(5)
                sol = dict(zip(outs, res))
            else:
                sol = m.calculate()
            obs.append({c: scalar(sol[pre + c]) for c in ('A1', 'A2', 'A3', 'A4', 'B1', 'B2', 'B3', 'C2', 'D1')})
            epochs.append([{'fn': e['fn'], 'compiling': e['compiling']}
                           for e in _verif.drain() if e['ev'] == 'vol'])
        return {'k': k, 'way': way, 'obs': obs, 'compile_events': comp, 'epochs': epochs,
                'nsites': 3}
    finally:
        shutil.rmtree(d, ignore_errors=True)


def _model_shard(items):
    install_clock()
    res = []
    for k, way in items:
        try:
            res.append(use_model(k, way))
        except BaseException as ex:  # noqa
            if isinstance(ex, (KeyboardInterrupt, SystemExit)):
                raise
            res.append({'k': k, 'way': way, 'exc': '%s: %s' % (type(ex).__name__, str(ex)[:300])})
    return res


def serial_of(t):
    """Excel serial (with fraction) of a datetime after 1900-03-01."""
    base = datetime.datetime(1899, 12, 30)
    d = t - base
    return d.days + (d.seconds + d.microseconds / 1e6) / 86400.0


def moving_clock_cases():
    """NOW / TODAY under a clock that advances at every reading, also across midnight:
    the value must lie between the first and the last reading of its own evaluation."""
    f = impl.F()
    install_clock()
    out = []
    starts = [datetime.datetime(2021, 3, 4, 12, 0, 0), datetime.datetime(2021, 3, 4, 23, 59, 59, 999000),
              datetime.datetime(2021, 12, 31, 23, 59, 59, 999500), datetime.datetime(2021, 3, 5, 0, 0, 0, 1000)]
    texts = ['=NOW()', '=NOW()+0', '=IF(TRUE,NOW(),0)', '=SUM(0,NOW())', '=MAX(NOW(),1)', '=TODAY()',
             '=TODAY()+0']
    try:
        for t0 in starts:
            for text in texts:
                for way in ('compile', 'model'):
                    FakeClock.tick = None
                    if way == 'compile':
                        fn_ = f.Parser().ast(text)[1].compile()
                        run = fn_
                    else:
                        m = f.ExcelModel().from_dict({'A1': text, 'B1': '=A1+0'})
                        run = lambda m=m: m.calculate()['A1']
                    FakeClock.current, FakeClock.tick, FakeClock.reads = t0, datetime.timedelta(milliseconds=2), []
                    try:
                        v = scalar(run())
                    except BaseException as ex:  # noqa
                        if isinstance(ex, (KeyboardInterrupt, SystemExit)):
                            raise
                        out.append((text, way, str(t0), 'raises %s' % type(ex).__name__))
                        continue
                    reads = list(FakeClock.reads)
                    FakeClock.tick = None
                    if v.get('k') != 'f' or not reads:
                        out.append((text, way, str(t0), 'no number / no clock reading: %s' % V.show(v)))
                        continue
                    lo, hi = serial_of(reads[0]), serial_of(reads[-1])
                    x = v['x']
                    if 'TODAY' in text:
                        ok = int(lo) <= x <= int(hi)
                    else:
                        ok = lo - 1.5 / 86400 <= x <= hi + 1.5 / 86400
                    out.append((text, way, str(t0), None if ok else
                                'value %r outside the readings of its evaluation [%r, %r] (%d readings)'
                                % (x, lo, hi, len(reads))))
        # one function / model evaluated again and again while the clock moves on - less
        # than a day across midnight, some hours, several days, back: every evaluation
        # shows its own readings (Volatile!NeverFrozen with the clock as the volatile source)
        day = datetime.datetime(2021, 6, 30, 23, 30, 0)
        hops = [datetime.timedelta(0), datetime.timedelta(hours=1), datetime.timedelta(hours=17),
                datetime.timedelta(hours=23, minutes=59), datetime.timedelta(days=3), datetime.timedelta(days=-2, hours=-1)]
        for text in texts:
            for way in ('compile', 'model'):
                FakeClock.tick = None
                if way == 'compile':
                    run = f.Parser().ast(text)[1].compile()
                else:
                    m = f.ExcelModel().from_dict({'A1': text, 'B1': '=A1+0'})
                    run = lambda m=m: m.calculate()['A1']
                t = day
                for hop in hops:
                    t = t + hop
                    FakeClock.current, FakeClock.tick, FakeClock.reads = t, datetime.timedelta(milliseconds=2), []
                    try:
                        v = scalar(run())
                    except BaseException as ex:  # noqa
                        if isinstance(ex, (KeyboardInterrupt, SystemExit)):
                            raise
                        out.append((text, way + '/again', str(t), 'raises %s' % type(ex).__name__))
                        break
                    reads = list(FakeClock.reads)
                    FakeClock.tick = None
                    if v.get('k') != 'f' or not reads:
                        out.append((text, way + '/again', str(t), 'no number / no clock reading: %s' % V.show(v)))
                        continue
                    lo, hi = serial_of(reads[0]), serial_of(reads[-1])
                    x = v['x']
                    ok = int(lo) <= x <= int(hi) if 'TODAY' in text else lo - 1.5 / 86400 <= x <= hi + 1.5 / 86400
                    out.append((text, way + '/again', str(t), None if ok else
                                'value %r outside the readings of its evaluation [%r, %r] after the clock moved on'
                                % (x, lo, hi)))
    finally:
        FakeClock.tick = None
    return out


def _untemper(y):
    """Inverse of the Mersenne Twister's output tempering (32-bit)."""
    def unshift_right(y, s):
        x = y
        for _ in range(32 // s + 1):
            x = y ^ (x >> s)
        return x & 0xFFFFFFFF

    def unshift_left(y, s, mask):
        x = y
        for _ in range(32 // s + 1):
            x = y ^ ((x << s) & mask)
        return x & 0xFFFFFFFF
    y = unshift_right(y, 18)
    y = unshift_left(y, 15, 0xEFC60000)
    y = unshift_left(y, 7, 0x9D2C5680)
    return unshift_right(y, 11)


def extreme_draw_cases():
    """RAND / RANDBETWEEN at the ends of the generator's range: numpy's global generator is
    put in the states whose next draw is k / 2**53 for the smallest and the largest k; the
    value stays in [0, 1) (in bottom..top for RANDBETWEEN) for every state."""
    import numpy as np
    f = impl.F()
    out = []

    def set_next(ks):
        key = np.random.get_state()[1].copy()
        for i, k in enumerate(ks):
            a, b = k >> 26, k & (2 ** 26 - 1)
            key[2 * i] = _untemper(a << 5)
            key[2 * i + 1] = _untemper(b << 6)
        np.random.set_state(('MT19937', key, 0))
    top = 2 ** 53
    set_next([top - 1, 12345])
    if not (np.random.rand() == 1 - 2.0 ** -53 and np.random.rand() == 12345 / 2.0 ** 53):
        return [('generator', 'numpy', 0, 'the generator could not be positioned')], False
    ks = [0, 1, 2, top // 2, top - 4, top - 3, top - 2, top - 1]
    texts = [('=RAND()', 0.0, 1.0, False), ('=IF(TRUE,2*RAND(),5)', 0.0, 2.0, False),
             ('=RANDBETWEEN(1,10)', 1.0, 10.0, True), ('=RANDBETWEEN(-3,-1)', -3.0, -1.0, True),
             ('=RANDBETWEEN(0.5,2.5)', 1.0, 2.0, True)]
    for text, lo, hi, closed in texts:
        fn_ = f.Parser().ast(text)[1].compile()
        m = f.ExcelModel().from_dict({'A1': text, 'B1': '=A1+0'})
        for k in ks:
            for way, run in (('compile', fn_), ('model', lambda m=m: m.calculate()['A1'])):
                set_next([k] * 8)
                try:
                    v = scalar(run())
                except BaseException as ex:  # noqa
                    if isinstance(ex, (KeyboardInterrupt, SystemExit)):
                        raise
                    out.append((text, way, k, 'raises %s' % type(ex).__name__))
                    continue
                x = v.get('x') if v.get('k') == 'f' else None
                ok = x is not None and (lo <= x <= hi if closed else lo <= x < hi)
                out.append((text, way, k, None if ok else 'draw %d / 2**53 gives %s, outside %s%r, %r%s'
                            % (k, V.show(v), '[', lo, hi, ']' if closed else ')')))
    return out, True


def _bounds_shard(items):
    """RANDBETWEEN(bottom, top) drawn repeatedly: every value in the allowed set of
    RandBetween.tla (or #NUM! when it is empty), and not always the same one."""
    f = impl.F()
    import numpy as np
    from fractions import Fraction
    out = []
    for o in items:
        b, t = Fraction(*o['b']), Fraction(*o['t'])

        def txt(q):
            s = repr(float(q)) if q.denominator != 1 else str(q.numerator)
            return s
        text = '=RANDBETWEEN(%s,%s)' % (txt(b), txt(t))
        try:
            fn_ = f.Parser().ast(text)[1].compile()
            vals = []
            for k in range(40):
                np.random.seed(1000 + k)
                vals.append(V.alpha(fn_()))
        except BaseException as ex:  # noqa
            if isinstance(ex, (KeyboardInterrupt, SystemExit)):
                raise
            out.append((text, o['allowed'], 'raises %s' % type(ex).__name__))
            continue
        allowed = set(o['allowed'])
        bad = None
        if not allowed:
            if any(v != V.E('NUM') for v in vals):
                bad = 'no integer lies between the bounds, expected #NUM!, got %s' % V.show(
                    [v for v in vals if v != V.E('NUM')][0])
        else:
            xs = [v['x'] if v.get('k') == 'f' else None for v in vals]
            wrong = [v for v, x in zip(vals, xs) if x is None or x != int(x) or int(x) not in allowed]
            if wrong:
                bad = 'value %s is not an integer within the bounds (allowed %s)' % (
                    V.show(wrong[0]), sorted(allowed))
            elif len(allowed) > 1 and len(set(xs)) == 1:
                bad = '40 draws gave the same value %s' % xs[0]
        out.append((text, o['allowed'], bad))
    return out


def main():
    rep = Report(PID)
    thorough = tier() == 'thorough'
    r = run_tlc('Volatile', 'Volatile.cfg')
    rep.add_tlc(r, 'Volatile: every way of obtaining an object x uses; NeverFrozen OncePerEpoch')
    # ---- a clock that moves during the evaluation ---------------------------------------
    for text, way, t0, bad in moving_clock_cases():
        rep.count()
        rep.distinct(('mc', text, way, t0))
        if bad:
            rep.violation({'kind': 'moving-clock', 'text': text, 'way': way, 'start': t0},
                          {'formula': text, 'way': way, 'clock_starts_at': t0, 'problem': bad,
                           'how': 'the clock of formulas.functions.date advances 2 ms at every '
                                  'reading; one evaluation; the value against its own readings'})
    # ---- the ends of the generator's range --------------------------------------------
    ex_cases, positioned = extreme_draw_cases()
    rep.cov['generator_positioned_at_extreme_draws'] = positioned
    for text, way, k, bad in ex_cases:
        if not positioned:
            break           # another generator behind numpy.random: nothing is concluded
        rep.count()
        rep.distinct(('xd', text, way, k))
        if bad:
            rep.violation({'kind': 'extreme-draw', 'text': text, 'way': way, 'k': str(k)},
                          {'formula': text, 'way': way, 'draw': '%d / 2**53' % k, 'problem': bad,
                           'how': 'numpy.random.set_state so that the next draws are k / 2**53'})
    # ---- RANDBETWEEN: an integer within its bounds ----------------------------------
    from ..tlc import parse_obl
    rb = run_tlc('RandBetween', 'RandBetween.cfg')
    rep.add_tlc(rb, 'RandBetween: all pairs of bounds x slots; InBounds NumIffEmpty Ends')
    for part in pmap(_bounds_shard, shards(parse_obl(rb['out']), NCPU), chunk=1):
        for text, allowed, bad in part:
            rep.count()
            rep.distinct(('rb', text))
            if bad:
                rep.violation({'kind': 'randbetween-bounds', 'text': text},
                              {'formula': text, 'allowed': allowed, 'problem': bad,
                               'how': 'Parser().ast(f)[1].compile() called 40 times under '
                                      'different numpy seeds'})
    rnd = random.Random(seed() * 11 + 1)
    # ---- formulas -----------------------------------------------------------
    items = []
    for w in WRAP:
        for v, kind in VOL.items():
            n = w.count('%s')
            items.append(('=' + (w % ((v,) * n)), 1, kind))   # equal sub-expressions share one node
    if thorough:
        for _ in range(600):
            w1, w2 = rnd.choice(WRAP), rnd.choice(WRAP)
            v, kind = rnd.choice(list(VOL.items()))
            if w1.count('%s') == 1:
                if w1 == 'MAX(0,%s)' and w2 == '-(%s)':
                    continue        # MAX(0, -x) is 0 for every positive x: nothing to observe
                inner = w2 % ((v,) * w2.count('%s'))
                items.append(('=' + (w1 % inner), 1, kind))
    fres = []
    for part in pmap(_formula_shard, shards(items, NCPU * 2), chunk=1):
        fres.extend(part)
    traces, tr_of = [], []
    for rr in fres:
        rep.count()
        if 'exc' in rr:
            rep.violation({'kind': 'raises', 'text': rr['text']}, rr)
            continue
        rep.distinct(('f', rr['text'], rr['way']))
        for p in fresh_verdict(rr['vals'], rr['kind']):
            rep.violation({'kind': 'formula-not-fresh', 'text': rr['text'], 'way': rr['way']},
                          {'formula': rr['text'], 'way': rr['way'], 'problem': p,
                           'how': 'Parser().ast(f)[1].compile() (or its deepcopy / dill copy) '
                                  'called in worlds 0,1,2,0 = (clock, numpy seed)'})
        vs = [a['x'] for a in rr['vals'] if a.get('k') == 'f']
        if rr['text'] == '=RAND()' and any(not (0 <= x < 1) for x in vs):
            rep.violation({'kind': 'rand-out-of-range', 'text': rr['text']}, {'values': vs})
        if rr['text'] == '=RANDBETWEEN(1,1000000)' and any(
                x != int(x) or not (1 <= x <= 1000000) for x in vs):
            rep.violation({'kind': 'randbetween-not-an-integer-in-bounds', 'text': rr['text']},
                          {'values': vs})
        traces.append({'way': rr['way'], 'nsites': rr['nsites'],
                       'compile_events': rr['compile_events'],
                       'epochs': rr['epochs']})
        tr_of.append(('formula', rr['text'], rr['way']))
    # ---- models ---------------------------------------------------------------
    ways = ['model-file', 'model-dict', 'json', 'copy', 'dill', 'model-compile']
    mitems = [(k, w) for k in range(8 if not thorough else 24) for w in ways]
    mres = []
    for part in pmap(_model_shard, shards(mitems, NCPU), chunk=1):
        mres.extend(part)
    for rr in mres:
        rep.count()
        if 'exc' in rr:
            rep.violation({'kind': 'raises', 'wb': rr['k'], 'way': rr['way']}, rr)
            continue
        rep.distinct(('m', rr['k'], rr['way']))
        cat = 'ExcelModel.compile-freezes-volatile-cells' if rr['way'] == 'model-compile' else None
        obs = rr['obs']
        v1, v2 = wb_spec(rr['k'])[2]
        kinds = {'A1': VOL[v1], 'A2': VOL[v1], 'B1': VOL[v2], 'B3': None,
                 'D1': VOL[v1] if rr['k'] % 2 == 0 else 'today'}
        for c in ('A1', 'B1', 'D1', 'A2', 'B3'):
            for p in fresh_verdict([o[c] for o in obs], kinds[c]):
                rep.violation({'cat': cat} if cat else
                              {'kind': 'cell-not-fresh', 'wb': rr['k'], 'way': rr['way'], 'cell': c},
                              {'workbook': wb_spec(rr['k'])[:2], 'way': rr['way'], 'cell': c,
                               'problem': p})
        for w, o in enumerate(obs):
            if all(o[c].get('k') == 'f' for c in ('A1', 'A2', 'A3', 'A4', 'B1', 'B2', 'B3')):
                a1, b1 = o['A1']['x'], o['B1']['x']
                snap = (V.close(o['A2']['x'], a1 + 1) and V.close(o['A3']['x'], a1 * 2)
                        and V.close(o['A4']['x'], 1.0, 1e-6) and V.close(o['B2']['x'], b1)
                        and V.close(o['B3']['x'], a1 + b1))
                if not snap:
                    rep.violation({'kind': 'snapshot', 'wb': rr['k'], 'way': rr['way']},
                                  {'workbook': wb_spec(rr['k'])[:2], 'way': rr['way'], 'use': w,
                                   'observed': {c: V.show(x) for c, x in o.items()}})
            if o['C2'] != {'k': 'f', 'x': 6.0}:
                rep.violation({'kind': 'non-volatile-cell-wrong', 'wb': rr['k'], 'way': rr['way']},
                              {'observed': V.show(o['C2'])})
        traces.append({'way': 'model-compile' if rr['way'] == 'model-compile' else 'model',
                       'nsites': rr['nsites'],
                       'compile_events': rr['compile_events'],
                       'epochs': rr['epochs']})
        tr_of.append(('model', rr['k'], rr['way']))
    # ---- trace validation -----------------------------------------------------
    wd = workdir('c13')
    try:
        tf = os.path.join(wd, 'tr.json')
        json.dump(traces, open(tf, 'w'))
        rt = run_tlc('Volatile', 'VolatileTrace.cfg', env={'TRACE_FILE': tf}, workers=1,
                     allow_error=True, timeout=900)
        if not rt['ok']:
            raise MachineryError('VolatileTrace failed:\n%s' % (rt['error'] or rt['out'][-1500:]))
        rep.add_tlc(rt, 'Volatile trace part: %d recorded objects' % len(traces))
        rej = {}
        for line in rt['out'].splitlines():
            line = line.strip()
            if line.startswith('<<"REJECT"'):
                f_ = [x.strip(' <>"') for x in line.split(',')]
                rej.setdefault(int(f_[1]), f_[2])
        ok = 0
        for i, what in enumerate(tr_of, 1):
            if i in rej:
                rep.violation({'kind': 'trace-' + rej[i], 'what': json.dumps(what)},
                              {'object': what, 'clause': rej[i], 'trace': traces[i - 1]})
            else:
                ok += 1
        rep.traces(ok)
    finally:
        shutil.rmtree(wd, ignore_errors=True)
    rep.sample({'formula': items[5][0], 'ways': ['formula-compile', 'copy', 'dill']})
    rep.sample({'workbook': wb_spec(0)[:2], 'ways': ways})
    rep.cov['rule'] = ('%d wrappers x 4 volatile functions x {compiled, deepcopy, dill} and 8 '
                       'workbooks x 6 ways, 4 uses each in worlds (clock, seed) 0,1,2,0; all '
                       'cases are distinct and non-trivial (each has a volatile site)' % len(WRAP))
    return rep.finish()


if __name__ == '__main__':
    main_wrapper(main)
