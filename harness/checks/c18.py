"""C18 - the parser is total: it returns a formula or its syntax error, only.

Spec side: ShuntingYard.tla / Grammar.tla (every token sequence has outcome
acc or rej; acc only when the grammar accepts) and NumLit.tla (numeric
literals: the lexer's automaton = the definition; value).  Binding:
 A. every rejected prefix of the exhaustive prefix tree must raise the formula
    error (nothing else) on the real parser, every accepted one must parse;
    every numeric literal TLC enumerates must be accepted with its value;
 B. seeded token soups, random printable strings and single-edit mutations of
    valid formulas are parsed with hooks on; an exception other than the
    formula error, or a time-out, is an `escape` (no spec action exists for
    it); each recorded parse is validated by ParseTrace.tla - an accepted
    text must be accepted by Grammar on the logged tokens with the same tree.
"""
import os
import json
import random
import shutil
from ..common import (Report, main_wrapper, seed, tier, pmap, shards,
                      MachineryError, NCPU, workdir)
from ..tlc import run_tlc, parse_obl
from .. import values as V
from .. import impl
from .. import formgen
from .. import parsecheck as P
from . import c01, c01_random

PID = 'C18'

SOUP = ['1', '2', '0.5', '007', '1E+2', '"a"', '"x""y"', 'TRUE', '#N/A', '#REF!',
        'A1', '$B$2', 'A1:B2', 'Sheet1!C3', 'name', 'SUM(', 'IF(', 'foo(', '(',
        ')', ',', ';', '{', '}', '+', '-', '*', '/', '^', '&', '=', '<', '>',
        '<=', '>=', '<>', '%', ':', ' ', '  ', '!', "'", '"', '.', '@', '#',
        '$', '[', ']', 'E', '1.', '.', '..',
        # reference forms the lexer knows by name
        'ANCHORARRAY(', '_xlfn.ANCHORARRAY(', 'INDIRECT("', '_xlfn.SINGLE(', '_xlfn.', 'A:A', '1:1',
        'R1C1', 'R[1]C[1]', 'A1#', "'S 1'!", '[1]S!', "'[B.xlsx]S'!", '#ref!', '#NULL!',
        'ANCHORARRAY(A1)', 'ANCHORARRAY(A1:B2)', '_xlfn.ANCHORARRAY(A:A)', 'ANCHORARRAY(name)',
        'INDIRECT("A1")', 'INDIRECT("A1:B2")', 'INDIRECT("x y")', '_xlfn.SINGLE(A1:B2)',
        "'a-b'!A1", "'2020'!A1", "'it''s'!A1", 'XFD1048576', '$XFD$1048576', 'A1:XFD1048576', 'FALſE', 'tRUE',
        'LOG10(', 'A1(', 'LOG10', 'ſ', 'K',
        # error literals with the wrong closing mark / case / prefix
        '#NAME!', '#REF?', '#NUM?', '#NULL?', '#value?', '#DIV/0?', '#N/A!', '#N/A?', 'Sheet1!#REF?', '#NAME', '#ref']
PRINTABLE = [chr(c) for c in range(32, 127)] + ['é', 'ß', '€', '中', ' ']


def gen_soup(rnd):
    n = rnd.randint(1, 9)
    return '=' + ''.join(rnd.choice(SOUP) for _ in range(n))


def gen_printable(rnd):
    n = rnd.randint(0, 14)
    s = ''.join(rnd.choice(PRINTABLE) for _ in range(n))
    return rnd.choice(['=', '=', '=', '', ' =', '{=']) + s + \
        (rnd.choice(['', '', '}']))


def mutate(rnd, text):
    """Delete / insert / replace one lexeme or one character."""
    body = text[1:]
    if not body:
        return text
    i = rnd.randrange(len(body))
    r = rnd.random()
    ins = rnd.choice(SOUP)
    if r < 0.34:
        body = body[:i] + body[i + 1:]
    elif r < 0.67:
        body = body[:i] + ins + body[i:]
    else:
        body = body[:i] + ins + body[i + 1:]
    return '=' + body


def _lit_shard(items):
    impl.F()
    out = []
    for o in items:
        if abs(o['v'].get('e', 0)) > 290:
            continue        # beyond the double range: no numeric value to compare
        lit = ''.join(chr(c) for c in o['s'])
        exp = V.num_of(o['v'])
        for ctx in ('=%s', '=1+%s', '=SUM(%s)', '=-%s'):
            text = ctx % lit
            p = P.run_parser(text)
            want = {'=%s': exp, '=1+%s': 1 + exp, '=SUM(%s)': exp, '=-%s': -exp}[ctx]
            ok = p.status == 'acc' and p.vstatus == 'ok'
            if ok:
                a = V.alpha(p.value)
                ok = a.get('k') == 'f' and V.close(a['x'], want, 1e-12)
            out.append((lit, text, ok, p.status, p.exc,
                        None if p.value is None else str(p.value)[:40]))
    return out


def literals(rep):
    r = run_tlc('NumLit', 'NumLit.cfg')
    rep.add_tlc(r, 'NumLit: prefix tree of literal strings; AutomatonIsDefinition '
                   'LiteralHasValue LeadingZero')
    obl = parse_obl(r['out'])
    res = []
    for part in pmap(_lit_shard, shards(obl, NCPU * 2), chunk=1):
        res.extend(part)
    for lit, text, ok, status, exc, val in res:
        rep.count()
        rep.distinct('lit:' + lit)
        if not ok:
            kind = 'escape' if status == 'escape' else 'literal'
            rep.violation({'kind': kind, 'text': text},
                          {'text': text, 'literal': lit, 'status': status,
                           'exception': exc, 'value': val})
    rep.sample({'numeric_literal': ''.join(chr(c) for c in obl[0]['s']),
                'value': V.show(obl[0]['v'])})
    return len(obl)


def fuzz(rep):
    thorough = tier() == 'thorough'
    n = 12000 if not thorough else 400000
    rnd = random.Random(seed() * 15485863 + 5)
    texts = []
    for i in range(n):
        k = i % 3
        if k == 0:
            texts.append(gen_soup(rnd))
        elif k == 1:
            texts.append(gen_printable(rnd))
        else:
            t = formgen.rnd_tree(rnd, rnd.randint(1, 4))
            texts.append(mutate(rnd, formgen.text(t, None, 'min')))
    # one spelling used both as a function and as an operand (a cell-like function name such
    # as LOG10( or A1(, or a defined name that is also a function) in one formula
    CLASH = ['LOG10', 'A1', 'B2', 'SUM', 'IF', 'ABS', 'foo', 'ATAN2', 'T']
    for i in range(max(200, n // 12)):
        nm = rnd.choice(CLASH)
        call = '%s(%s)' % (nm, ','.join(rnd.choice(['1', 'A1', '', '"a"', nm]) for _ in range(rnd.randint(0, 2))))
        other = rnd.choice([nm, '$' + nm, nm.lower(), nm + ':' + nm])
        op = rnd.choice(['+', '&', ',', ' ', '*', '=', ':'])
        shape = rnd.randrange(5)
        t = ['=%s%s%s' % (call, op, other), '=%s%s%s' % (other, op, call), '=IF(%s,%s)' % (call, other),
             '=(%s%s%s)*2' % (call, op, other), '=SUM(%s,1)&%s' % (call, other)][shape]
        texts.append(t)
    texts = sorted(set(texts))
    rnd.shuffle(texts)
    out = []
    for part in pmap(c01_random._run, shards(texts, NCPU * 4), chunk=1):
        out.extend(part)
    wd = workdir('c18')
    try:
        recs = []
        n_acc = 0
        for text, rec, exc in out:
            if rec['outcome'] == 'escape':
                rep.count()
                last_cell = exc == 'InvalidRangeName' and 'XFD1048576' in text.upper().replace('$', '')
                rep.violation({'cat': 'last-cell-of-the-sheet-as-operand-of-a-reference-operator'} if last_cell else
                              {'kind': 'escape', 'exception': exc, 'text': text},
                              {'text': text, 'exception': exc,
                               'how': 'formulas.Parser().ast(text)'})
                continue
            if not rec['events'] and rec['outcome'] == 'rej':
                rep.count()     # not a formula at all / failed on the first token
                continue
            if rec['outcome'] == 'acc':
                n_acc += 1
                rep.distinct('fz:' + text)
            recs.append((text, c01_random.prepare(text, rec)))
        ok = c01_random.validate_traces(rep, recs, wd, PID, 'fuzz')
        rep.traces(ok)
        rep.cov['fuzz_inputs'] = len(texts)
        rep.cov['fuzz_accepted'] = n_acc
        rep.sample({'fuzz_inputs': texts[:6]})
    finally:
        shutil.rmtree(wd, ignore_errors=True)
    # is_formula must never raise
    bad = []
    f = impl.F()
    prs = f.Parser()
    for t in texts[:5000]:
        try:
            prs.is_formula(t)
        except BaseException as ex:  # noqa
            bad.append((t, type(ex).__name__))
    for t, e in bad[:10]:
        rep.violation({'kind': 'is_formula-raises', 'text': t},
                      {'text': t, 'exception': e})


def main():
    rep = Report(PID)
    thorough = tier() == 'thorough'
    obl = c01.tlc_obligations(rep, c01.CONFIGS, maxlen_bump=1 if thorough else 0)
    # C18 looks at accept / reject / escape only, on a larger share of the
    # rejected prefixes than C01 does
    rnd = random.Random(seed() * 977 + 3)
    rej = [o for o in obl if o['g'] == 'rej']
    acc = [o for o in obl if o['g'] == 'acc']
    rnd.shuffle(rej)
    if not thorough:
        rej = rej[:150000]
        rnd.shuffle(acc)
        acc = acc[:6000]
    sel = rej + acc
    parts = shards(sel, NCPU * 4)
    results = pmap(c01._shard, [(p, seed() * 77 + i, False)
                                for i, p in enumerate(parts)], chunk=1)
    n_seq = 0
    for part in results:
        for toks, g, n, probs in part:
            if not n:
                continue
            n_seq += 1
            rep.count(n)
            if len(toks) >= 3:
                rep.distinct(' '.join(toks))
            for kind, detail in probs:
                if kind not in ('accepted-invalid', 'rejected-valid', 'escape'):
                    continue
                cat = c01.categorize(toks, kind, detail.get('style'))
                sig = {'cat': cat, 'kind': kind} if cat else \
                    {'kind': kind, 'toks': ' '.join(toks)}
                rep.violation(sig, dict(detail, tokens=toks, grammar=g))
    rep.traces(n_seq)
    rep.sample({'rejected_prefix': rej[0]['s'], 'text': P.spell(rej[0]['s'], 'min')})
    literals(rep)
    fuzz(rep)
    rep.cov['rule'] = (
        'token sequences of the exhaustive prefix tree (mostly rejected ones), '
        'all numeric literals up to 6 characters in 4 contexts, and seeded '
        'token soups / printable strings / single-edit mutations; distinct '
        'non-trivial = distinct sequences of >= 3 tokens, distinct literals and '
        'distinct accepted fuzz inputs')
    rep.cov['exhaustive'] = thorough
    return rep.finish()


if __name__ == '__main__':
    main_wrapper(main)
