"""C15 - a model loaded from chosen outputs equals the full model on them.

Complete.tla: Needs(W, outs) (ideal closure) and the work-list machine of
ExcelModel.complete() with every pop order; TLC checks ClosureComplete,
LoadedArePopulated and Termination, and validates what real from_ranges() runs
loaded (hook H7).  Each (workbook, outputs) is written to .xlsx, built with
from_ranges(outs).finish() and with loads().finish(); the outputs must equal
Sem(W); finishing / completing again must change nothing.
"""
import os
import json
import random
import shutil
import tempfile
from ..common import (Report, main_wrapper, seed, tier, shards, pmap, MachineryError,
                      NCPU, workdir)
from ..tlc import run_tlc
from .. import values as V
from .. import impl
from .. import wbgen as G
from .. import wbrun as R
from . import c03

PID = 'C15'
GEN_KW = {'n_cells': 9, 'features': ['names', 'array'], 'case_titles': True, 'twoblocks': True}


def pick_outs(g, s):
    rnd = random.Random(s * 13 + 2)
    forms = [i for i in g.order if g.cells[i]['k'] in ('f', 'sp', 'af')]
    if list(g.sheets) == list(G.LAYOUT_SAME) and forms:
        # one sheet title in two books: ask for (nearly) everything, so that both sheets
        # of that title are completed within one model
        return forms[-6:]
    if sum(1 for c in g.cells.values() if c['k'] == 'af') >= 2 and len(g.sheets) == 1:
        # two array-formula blocks on one sheet: the outputs that read spill cells of both
        plain = [i for i in forms if g.cells[i]['k'] == 'f']
        if len(plain) >= 2:
            return [plain[1]] if s % 2 == 0 else [plain[1], plain[0]]
    return rnd.sample(forms, min(len(forms), rnd.randint(1, 2))) or [g.order[0]]


def out_name(g, i, d):
    b, s, c, r = G.parse_id(i)
    return "'%s/[%s]%s'!%s" % (d, b, s, G.a1(c, r))


def graph_of(m):
    dsp = m.dsp
    return (sorted(map(str, dsp.nodes)),
            sorted((str(u), str(v)) for u, nb in dsp.dmap.succ.items() for v in nb))


def _work(item):
    f = impl.F()
    from formulas import _verif
    s, sem = item['seed'], item['sem']
    g = G.make(s, **GEN_KW)
    outs = pick_outs(g, s)
    res = {'seed': s, 'problems': [], 'n': 0, 'added': [], 'popped': []}
    d = tempfile.mkdtemp(prefix='verif-c15-')
    # every other workbook: spill cells carry a stale cached value in the file
    R.SPILL_CACHE = (s % 2 == 0)
    try:
        R.write_xlsx(g, d)
        names = [out_name(g, i, d) for i in outs]
        _verif.drain()
        m = f.ExcelModel().from_ranges(*names)
        evs = _verif.drain()
        # Complete!ClosureComplete at the return of from_ranges itself (finish() would
        # complete the model once more and hide a gap): everything the outputs need
        loaded_now = {e['node'] for e in evs if e['ev'] == 'add'}
        m.finish()
        evs = evs + _verif.drain()
        name2id = {G.node_name(i): i for i in g.cells}
        rect2anchor = {G.rect_node_name(*c['rect']): i for i, c in g.cells.items() if c['k'] == 'af'}
        for e in evs:
            if e['ev'] == 'add':
                n = e['node']
                if n in name2id:
                    res['added'].append(name2id[n])
                elif n in rect2anchor:
                    a = rect2anchor[n]
                    res['added'].append(a)
                    res['added'] += [x for x, c in g.cells.items() if c['k'] == 'sp' and c['anchor'] == a]
            elif e['ev'] == 'pop':
                n = e['node']
                # the requested names carry the directory; later ones are relative
                for i in g.cells:
                    if n == G.node_name(i) or n.upper() == out_name(g, i, d).upper():
                        res['popped'].append(i)
                for i in outs:
                    if n.upper().replace(d.upper() + '/', '') == G.node_name(i).upper():
                        res['popped'].append(i)
        need = G.needed_from(g, outs)
        have = set()
        for n_ in loaded_now:
            if n_ in name2id:
                have.add(name2id[n_])
            elif n_ in rect2anchor:
                a = rect2anchor[n_]
                have.add(a)
                have |= {x for x, c in g.cells.items() if c['k'] == 'sp' and c['anchor'] == a}
        gap = sorted(i for i in need if i in g.cells and i not in have)
        if gap:
            res['problems'].append({'kind': 'closure-incomplete-at-return-of-from_ranges', 'cell': gap[0],
                                    'outs': outs, 'observed': 'not loaded: %s' % ', '.join(gap[:6])})
        sol = m.calculate()
        for i in outs:
            res['n'] += 1
            o = R.node_value(sol, g, i)
            if i in sem and (o is None or not V.matches(sem[i], o)):
                res['problems'].append({'kind': 'output-value', 'cell': i, 'outs': outs,
                                        'expected': V.show(sem[i]),
                                        'observed': V.show(o) if o else None})
        # completing / finishing an already complete model changes nothing
        g1 = graph_of(m)
        before = {k: V.alpha(R._first(v.value)) for k, v in sol.items() if hasattr(v, 'ranges') and v.values}
        m.complete()
        g2 = graph_of(m)
        if g1 != g2:
            res['problems'].append({'kind': 'complete-again-changes-structure',
                                    'new_nodes': sorted(set(g2[0]) - set(g1[0]))[:5],
                                    'lost_nodes': sorted(set(g1[0]) - set(g2[0]))[:5]})
        m.finish()
        sol2 = m.calculate()
        after = {k: V.alpha(R._first(v.value)) for k, v in sol2.items() if hasattr(v, 'ranges') and v.values}
        ch = [k for k in before if k in after and before[k] != after[k]]
        if ch:
            res['problems'].append({'kind': 'finish-again-changes-results',
                                    'nodes': ch[:5],
                                    'before': [V.show(before[k]) for k in ch[:5]],
                                    'after': [V.show(after[k]) for k in ch[:5]]})
        # the fully loaded model agrees on the outputs
        mf = R.build_files(g, d)
        solf = mf.calculate()
        for i in outs:
            o = R.node_value(solf, g, i)
            if i in sem and (o is None or not V.matches(sem[i], o)):
                res['problems'].append({'kind': 'full-model-value', 'cell': i,
                                        'expected': V.show(sem[i]),
                                        'observed': V.show(o) if o else None})
    except BaseException as ex:  # noqa
        if isinstance(ex, (KeyboardInterrupt, SystemExit)):
            raise
        res['problems'].append({'kind': 'raises', 'exc': '%s: %s' % (type(ex).__name__, str(ex)[:300])})
    finally:
        R.SPILL_CACHE = False
        shutil.rmtree(d, ignore_errors=True)
    return res


def main():
    rep = Report(PID)
    thorough = tier() == 'thorough'
    n = 90 if not thorough else 900
    base = seed() * 100000 + 15000
    seeds = [base + i for i in range(n)]
    wd = workdir('c15')
    try:
        gens = {s: G.make(s, **GEN_KW) for s in seeds}
        cases = []
        for s in seeds:
            c = G.tla_case(gens[s])
            c['outs'] = pick_outs(gens[s], s)
            cases.append(c)
        sem, cf = c03.tlc_sem(rep, wd, cases, '%d workbooks' % n)
        # the work-list machine with every pop order, on a subset (state space)
        sub = os.path.join(wd, 'sub.json')
        # (every pop order: the number of requested outputs is capped at two here,
        #  the replay below asks for all of them)
        subset = [dict(c, outs=c['outs'][:2]) for c in cases[:25 if not thorough else 60]]
        json.dump(subset, open(sub, 'w'))
        r = run_tlc('Complete', 'Complete.cfg', env={'WB_FILE': sub, 'OUT_FILE': os.path.join(wd, 'n.json')},
                    timeout=2500, heap='8g')
        rep.add_tlc(r, 'Complete: work-list of complete() with every pop order; '
                       'ClosureComplete LoadedArePopulated Termination')
        r0 = run_tlc('Complete', 'CompletePinned.cfg',
                     env={'WB_FILE': sub, 'OUT_FILE': os.path.join(wd, 'n0.json')},
                     timeout=2500, heap='8g', allow_error=True)
        rep.cov['pinned_model_violates_ClosureComplete'] = (not r0['ok'])
        items = [{'seed': s, 'sem': sem[k]} for k, s in enumerate(seeds)]
        res = pmap(_work, items, chunk=1)
        traces = []
        for k, rr in enumerate(res):
            rep.count(max(1, rr['n']))
            rep.distinct(('wb', rr['seed']))
            for p in rr['problems']:
                rep.violation({'kind': p['kind'], 'seed': rr['seed'], 'cell': p.get('cell'),
                               'got': p.get('observed') or p.get('exc') or str(p.get('nodes') or p.get('new_nodes'))},
                              {'workbook_seed': rr['seed'], 'problem': p,
                               'outs': pick_outs(gens[rr['seed']], rr['seed']),
                               'workbook': c03.describe(gens[rr['seed']]),
                               'how': 'ExcelModel().from_ranges(*outs).finish().calculate()'})
            traces.append({'w': k + 1, 'added': rr['added'] or ['_none_'],
                           'popped': rr['popped'] or ['_none_']})
        tf = os.path.join(wd, 'tr.json')
        json.dump(traces, open(tf, 'w'))
        rt = run_tlc('Complete', 'CompleteTrace.cfg', env={'WB_FILE': cf, 'TRACE_FILE': tf,
                                                          'OUT_FILE': os.path.join(wd, 'x.json')},
                     workers=1, timeout=1500, heap='4g', allow_error=True)
        if not rt['ok']:
            raise MachineryError('CompleteTrace failed:\n%s' % (rt['error'] or rt['out'][-1500:]))
        rep.add_tlc(rt, 'CompleteTrace: %d recorded from_ranges() runs' % len(traces))
        rej = {}
        for line in rt['out'].splitlines():
            line = line.strip()
            if line.startswith('<<"REJECT"'):
                f_ = [x.strip(' <>"') for x in line.split(',')]
                rej.setdefault(int(f_[1]), f_[2])
        ok = 0
        for k, rr in enumerate(res, 1):
            if any(p['kind'] == 'raises' for p in rr['problems']):
                continue
            if k in rej:
                rep.violation({'kind': 'trace-' + rej[k], 'seed': rr['seed']},
                              {'workbook_seed': rr['seed'], 'clause': rej[k],
                               'added': rr['added'], 'popped': rr['popped'],
                               'outs': pick_outs(gens[rr['seed']], rr['seed']),
                               'workbook': c03.describe(gens[rr['seed']])})
            else:
                ok += 1
        rep.traces(ok)
        rep.sample({'workbook': c03.describe(gens[seeds[0]]), 'outs': pick_outs(gens[seeds[0]], seeds[0])})
        rep.cov['rule'] = ('seeded workbooks (multi-sheet, two books, names, array formulas) x '
                           '1-2 requested outputs (formula cells, array anchors, spill cells); '
                           'distinct non-trivial = distinct workbooks')
    finally:
        shutil.rmtree(wd, ignore_errors=True)
    return rep.finish()


if __name__ == '__main__':
    main_wrapper(main)
