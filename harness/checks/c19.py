"""C19 - lookup and criteria functions agree with their search definitions.

Lookup.tla: Match (ideal) vs MatchScan (the linear scans of xmatch with their
early exits) for every sorted / mixed / arbitrary key vector of the bounded
pool and every key (ScanRefinesMatch); INDEX by definition; CountIf with the
positions that satisfy each criterion (CriteriaPartition).  Every case is
replayed on the real MATCH (array literal and referenced range), on LOOKUP /
VLOOKUP / HLOOKUP over tables built around the key line (= INDEX of MATCH), on
INDEX, and on COUNTIF / SUMIF / AVERAGEIF.
"""
import os
import json
import random
from ..common import (Report, main_wrapper, seed, tier, shards, pmap, MachineryError, NCPU)
from ..tlc import run_tlc, parse_obl
from .. import values as V
from .. import impl

PID = 'C19'
OPS = ['=', '<>', '<', '<=', '>', '>=']


def arr_lit(vec, vertical=False):
    return '{%s}' % (';' if vertical else ',').join(V.lit(x) for x in vec)


def has_blank(vec):
    return any(x['k'] == 'z' for x in vec)


def ev(formula, inputs=None, ref='Z50'):
    return impl.cell_eval(ref, formula, inputs)


def rng(c0, r0, n, vertical=False):
    a = '%s%d' % (chr(64 + c0), r0)
    b = '%s%d' % (chr(64 + c0 + (0 if vertical else n - 1)), r0 + (n - 1 if vertical else 0))
    return a if n == 1 else '%s:%s' % (a, b)


def as_cells(vec, vertical=False):
    vals = [V.cellval(x) if x['k'] != 'z' else None for x in vec]
    import schedula as sh
    vals = [sh.EMPTY if v is None else (v[0][0] if isinstance(v, list) else v) for v in vals]
    return [[v] for v in vals] if vertical else [vals]


def crit_text(op, operand):
    """The criterion as Excel users write it."""
    k = operand['k']
    if k == 'n':
        t = V.num_lit(operand)
    elif k == 'b':
        t = 'TRUE' if operand['b'] else 'FALSE'
    else:
        t = V.text_of(operand)
    if op == '=':
        return [V.lit(operand), '"=%s"' % t] if k != 't' else ['"%s"' % t, '"=%s"' % t]
    return ['"%s%s"' % (op, t)]


def match_routes(o):
    key, vec, mode = o['key'], o['vec'], o['mode']
    exp = o['exp']
    out = []
    n = len(vec)
    if not has_blank(vec):
        out.append(('MATCH/literal', '=MATCH(%s,%s,%d)' % (V.lit(key), arr_lit(vec), mode), None, exp))
        out.append(('MATCH/literal-vertical', '=MATCH(%s,%s,%d)' % (V.lit(key), arr_lit(vec, True), mode),
                    None, exp))
    r = rng(1, 1, n)
    out.append(('MATCH/range', '=MATCH(%s,%s,%d)' % (V.lit(key), r, mode), {r: as_cells(vec)}, exp))
    # LOOKUP / VLOOKUP / HLOOKUP = INDEX(result line, MATCH(key, key line))
    marks = [{'k': 'n', 'n': 100 + i, 'd': 1, 'e': 0} for i in range(1, n + 1)]
    want = exp if exp['k'] == 'e' else marks[exp['n'] - 1]
    if mode in (0, 1) and not has_blank(vec):
        flag = 'TRUE' if mode == 1 else 'FALSE'
        vt = '{%s}' % ';'.join('%s,%s' % (V.lit(a), V.lit(b)) for a, b in zip(vec, marks))
        out.append(('VLOOKUP', '=VLOOKUP(%s,%s,2,%s)' % (V.lit(key), vt, flag), None, want))
        ht = '{%s;%s}' % (','.join(V.lit(a) for a in vec), ','.join(V.lit(b) for b in marks))
        out.append(('HLOOKUP', '=HLOOKUP(%s,%s,2,%s)' % (V.lit(key), ht, flag), None, want))
        if mode == 1:
            out.append(('LOOKUP', '=LOOKUP(%s,%s,%s)' % (V.lit(key), arr_lit(vec), arr_lit(marks)),
                        None, want))
        out.append(('INDEX(MATCH)', '=INDEX(%s,MATCH(%s,%s,%d))' % (arr_lit(marks), V.lit(key), arr_lit(vec), mode),
                    None, want))
    return out


def countif_routes(o):
    vec, operand, op = o['vec'], o['key'], OPS[o['mode'] - 1]
    n = len(vec)
    r = rng(1, 1, n)
    s = rng(1, 2, n)
    marks = [10 ** i for i in range(n)]
    hold = sorted(o['hold'])
    dc = sorted(o.get('dc', []))
    inputs = {r: as_cells(vec), s: [marks]}
    out = []
    for ct in crit_text(op, operand):
        tot = sum(marks[i - 1] for i in hold)
        if dc:
            # the selected positions must be hold plus any of the don't-care ones
            out.append(('SUMIF', '=SUMIF(%s,%s,%s)' % (r, ct, s), inputs,
                        {'k': 'sel', 'hold': hold, 'dc': dc}))
            continue
        out.append(('COUNTIF', '=COUNTIF(%s,%s)' % (r, ct), inputs, {'k': 'n', 'n': len(hold), 'd': 1, 'e': 0}))
        out.append(('SUMIF', '=SUMIF(%s,%s,%s)' % (r, ct, s), inputs, {'k': 'n', 'n': tot, 'd': 1, 'e': 0}))
        if hold:
            out.append(('AVERAGEIF', '=AVERAGEIF(%s,%s,%s)' % (r, ct, s), inputs,
                        {'k': 'n', 'n': tot, 'd': len(hold), 'e': 0}))
        else:
            out.append(('AVERAGEIF', '=AVERAGEIF(%s,%s,%s)' % (r, ct, s), inputs, V.E('DIV0')))
    return out


def index_routes(o):
    R, C, r, c = o['vec']
    if o['exp']['k'] in ('row', 'col', 'all'):
        # row / column 0 (whole line): Excel's convention, modelled in Lookup.tla but not
        # stated by the property ("the element at the given row and column") - not replayed
        return []
    arr = [[{'k': 'n', 'n': 10 * i + j, 'd': 1, 'e': 0} for j in range(1, C + 1)] for i in range(1, R + 1)]
    lit = '{%s}' % ';'.join(','.join(V.lit(x) for x in row) for row in arr)
    e = o['exp']
    if e['k'] == 'ref':
        want = V.E('REF')
    elif e['k'] == 'elem':
        want = arr[e['i'] - 1][e['j'] - 1]
    elif e['k'] == 'row':
        want = {'k': 'a', 'rows': [arr[e['i'] - 1]]}
    elif e['k'] == 'col':
        want = {'k': 'a', 'rows': [[row[e['j'] - 1]] for row in arr]}
    else:
        want = {'k': 'a', 'rows': arr}
    shape = (len(want['rows']), len(want['rows'][0])) if want['k'] == 'a' else (1, 1)
    return [('INDEX', '=INDEX(%s,%d,%d)' % (lit, r, c), None, want, shape)]


def table_routes(o):
    R, C, col = o['vec']
    key, mode = o['key'], o['mode']

    def cell(i, j):
        return {'k': 'n', 'n': 2 * i if j == 1 else 100 + 10 * i + j, 'd': 1, 'e': 0}
    tab = [[cell(i, j) for j in range(1, C + 1)] for i in range(1, R + 1)]
    e = o['exp']
    if e['k'] == 'elem':
        want = tab[e['i'] - 1][e['j'] - 1]
    elif e['k'] == 'na':
        want = V.E('NA')
    elif e['k'] == 'ref':
        want = V.E('REF')
    else:
        want = {'k': 'any', 'of': [V.E('NA'), V.E('REF')]}
    flag = 'TRUE' if mode == 1 else 'FALSE'
    vt = '{%s}' % ';'.join(','.join(V.lit(x) for x in row) for row in tab)
    ht = '{%s}' % ';'.join(','.join(V.lit(tab[i][j]) for i in range(R)) for j in range(C))
    out = [('VLOOKUP/table', '=VLOOKUP(%s,%s,%d,%s)' % (V.lit(key), vt, col, flag), None, want),
           ('HLOOKUP/table', '=HLOOKUP(%s,%s,%d,%s)' % (V.lit(key), ht, col, flag), None, want)]
    # the same table through a referenced range
    ref = 'A1' if (R, C) == (1, 1) else 'A1:%s%d' % (chr(64 + C), R)
    vals = [[V.cellval(x) for x in row] for row in tab]
    vals = [[v[0][0] if isinstance(v, list) else v for v in row] for row in vals]
    out.append(('VLOOKUP/range', '=VLOOKUP(%s,%s,%d,%s)' % (V.lit(key), ref, col, flag), {ref: vals}, want))
    return out


def _shard(items):
    impl.F()
    from .c05 import rect_ref
    res = []
    for o in items:
        if o['kind'] == 'match':
            routes = match_routes(o)
        elif o['kind'] == 'countif':
            routes = countif_routes(o)
        elif o['kind'] == 'table':
            routes = table_routes(o)
        else:
            routes = index_routes(o)
        # whole numbers of referenced cells once as int, once as float (a file gives either)
        more = []
        for rt in routes:
            if rt[2] and any(isinstance(x, int) and not isinstance(x, bool)
                             for rows in rt[2].values() for row in rows for x in row):
                fl = {k_: [[float(x) if isinstance(x, int) and not isinstance(x, bool) else x for x in row]
                           for row in rows] for k_, rows in rt[2].items()}
                more.append((rt[0] + '/float',) + (rt[1], fl) + tuple(rt[3:]))
        routes = list(routes) + more
        for rt in routes:
            name, formula, inputs, want = rt[:4]
            ref = 'Z50'
            if len(rt) == 5 and rt[4] != (1, 1):
                ref = rect_ref(20, 50, rt[4]).replace(chr(64 + 20), 'T').replace(chr(64 + 20 + rt[4][1] - 1), chr(84 + rt[4][1] - 1))
            st, val = impl.observe(ev, formula, inputs, ref)
            if st == 'raise':
                obs, ok = {'k': 'raise', 'repr': val}, False
            else:
                obs = V.alpha(val)
                w = want
                if w['k'] == 'sel':
                    ok = False
                    if obs['k'] == 'f' and obs['x'] == int(obs['x']) and obs['x'] >= 0:
                        digits = str(int(obs['x']))[::-1]
                        sel = {i + 1 for i, ch in enumerate(digits) if ch == '1'}
                        ok = (set(digits) <= {'0', '1'} and set(w['hold']) <= sel
                              and sel <= set(w['hold']) | set(w['dc']))
                    res.append((o['kind'], name, formula, True, ok,
                                'positions %s (+ any of %s)' % (w['hold'], w['dc']), V.show(obs), o))
                    continue
                if w['k'] == 'a' and len(w['rows']) == 1 and len(w['rows'][0]) == 1:
                    w = w['rows'][0][0]
                ok = V.matches(w, obs)
            res.append((o['kind'], name, formula, inputs is not None, ok,
                        V.show(want) if want['k'] != 'sel' else json.dumps(want),
                        V.show(obs) if obs['k'] != 'raise' else 'raise:' + obs['repr'][:80], o))
    return res


def main():
    rep = Report(PID)
    thorough = tier() == 'thorough'
    src = open('/verif/spec/Lookup.cfg').read().replace('EmitObl = FALSE', 'EmitObl = TRUE')
    tmp = 'Lookup_run%d.cfg' % os.getpid()
    open(os.path.join('/verif/spec', tmp), 'w').write(src)
    try:
        r = run_tlc('Lookup', tmp, timeout=1500, heap='8g')
    finally:
        os.remove(os.path.join('/verif/spec', tmp))
    rep.add_tlc(r, 'Lookup: every (key, vector, mode) / criterion / INDEX case of the pool; '
                   'ScanRefinesMatch CriteriaPartition')
    obl = parse_obl(r['out'])
    if len(obl) * 2 != r['distinct']:
        raise MachineryError('Lookup: %d obligations for %d states' % (len(obl), r['distinct']))
    rnd = random.Random(seed() * 19 + 7)
    rnd.shuffle(obl)
    if not thorough:
        idx = [o for o in obl if o['kind'] in ('index', 'table')]
        rest = [o for o in obl if o['kind'] not in ('index', 'table')]
        obl = idx[:4000] + rest[:9000]
    res = []
    for part in pmap(_shard, shards(obl, NCPU * 4), chunk=1):
        res.extend(part)
    for kind, name, formula, ranged, ok, want, got, o in res:
        rep.count()
        rep.distinct((kind, json.dumps(o['key']), json.dumps(o['vec']), o['mode']))
        if not ok:
            rep.violation({'kind': name, 'formula': formula, 'got': got},
                          {'function': name, 'formula': formula, 'expected': want, 'observed': got,
                           'vector': [V.show(x) for x in o['vec']] if kind not in ('index', 'table')
                           else o['vec'],
                           'key': V.show(o['key']), 'mode': o['mode'],
                           'how': "Cell('Z50', formula) with the referenced ranges supplied"})
    rep.traces(len(res))
    for kind, name, formula, ranged, ok, want, got, o in res[:5]:
        rep.sample({'formula': formula, 'expected': want})
    rep.cov['rule'] = ('all strictly ascending / descending numeric and text key vectors of length '
                       '<= 4 (also with one element of another type inserted), arbitrary mixed '
                       'vectors of length <= 3 for exact mode, 17 keys (inside, outside, between, '
                       'other type, wild cards); 6 operators x 5 operands for the criteria; INDEX '
                       'on all shapes <= 6x6 with row / column 1..7; VLOOKUP / HLOOKUP on tables '
                       'of all shapes <= 6x6, every key inside / between / outside, every column '
                       'up to one past the table, both modes; distinct by (function case)')
    rep.cov['exhaustive'] = thorough
    return rep.finish()


if __name__ == '__main__':
    main_wrapper(main)
