"""C10 - circular references: termination, isolation and exact marking.

Cycles.tla: Johnson's algorithm as written in cycle.py, every pop from a set
(or from a list built from a set) a nondeterministic choice, against
Elementary(G): Sound, EachOnce, Termination for all digraphs on 3 nodes (every
choice sequence); all 65 536 digraphs on 4 nodes are emitted with their
elementary cycles and the real simple_cycles is run on each under shuffled
insertion orders and several hash seeds; what it yielded on random larger
graphs is validated by CyclesTrace.tla.  Workbook.tla LazySem: evaluation by
need (IF / IFERROR evaluate only what is selected), cells that wait for
themselves marked #CIRC!, the mark then an ordinary error value; TLC checks
that every order of lazy evaluation agrees (LPartial) and ends total (LTotal).
Generated cyclic workbooks are finished with circular=True and calculated
under shuffled orders, both load paths and several hash seeds with a watchdog.
"""
import os
import json
import random
import shutil
import subprocess
from concurrent.futures import ThreadPoolExecutor
from ..common import (Report, main_wrapper, seed, tier, shards, MachineryError,
                      NCPU, workdir, PY, VERIF, REPO)
from ..tlc import run_tlc, parse_obl
from .. import values as V
from .. import wbgen as G
from . import c03

PID = 'C10'


def run_cyjobs(wd, jobs):
    def run(j):
        hs, jf, of = j
        env = dict(os.environ)
        env['PYTHONHASHSEED'] = str(hs)
        env['VERIF_REPO'] = REPO
        p = subprocess.run([PY, '-m', 'harness.cyjob', jf, of], cwd=VERIF, env=env,
                           stdout=subprocess.PIPE, stderr=subprocess.STDOUT, timeout=3000)
        if p.returncode != 0 or not os.path.exists(of):
            raise MachineryError('cyjob failed:\n' + p.stdout.decode()[-2000:])
        return hs, json.load(open(of))
    with ThreadPoolExecutor(max_workers=NCPU) as ex:
        return list(ex.map(run, jobs))


def canon(c):
    k = c.index(min(c))
    return tuple(c[k:] + c[:k])


def has_interceptor(g, i):
    def walk(e):
        if e[0] == 'fn':
            return e[1] in ('ISERROR', 'IFERROR', 'COUNT') or any(walk(a) for a in e[2])
        if e[0] == 'op':
            return walk(e[2]) or walk(e[3])
        if e[0] == 'un':
            return walk(e[2])
        return False
    c = g.cells.get(i)
    return bool(c and 'e' in c and walk(c['e']))


def has_lazy(g, i):
    def walk(e):
        if e[0] == 'fn':
            return e[1] in ('IF', 'IFERROR') or any(walk(a) for a in e[2])
        if e[0] == 'op':
            return walk(e[2]) or walk(e[3])
        if e[0] == 'un':
            return walk(e[2])
        return False
    c = g.cells.get(i)
    return bool(c and 'e' in c and walk(c['e']))


def selected_guarded_deps(g, i):
    """The cells that cell i reads inside a *selected* branch of an IF / IFERROR (as far as
    this can be told without evaluating sub-expressions: a guard that is a constant or a
    direct reference to a constant cell selects one branch; any other guard may select
    either)."""
    def known(e):
        if e[0] == 'c':
            return e[1]
        if e[0] == 'ref' and e[1] in g.cells and g.cells[e[1]]['k'] == 'c':
            return g.cells[e[1]]['v']
        if e[0] == 'ref' and e[1] not in g.cells:
            return {'k': 'z'}
        return None

    def ids(e):
        return {d for d in G.expr_ids(g, e) if d in g.cells}

    def walk(e):
        k = e[0]
        if k == 'fn' and e[1] == 'IF' and len(e[2]) >= 2:
            v = known(e[2][0])
            out = walk(e[2][0])
            if v is not None and v.get('k') in ('b', 'n', 'z'):
                truth = v.get('b') if v['k'] == 'b' else (v.get('n', 0) != 0 if v['k'] == 'n' else False)
                sel = e[2][1] if truth else (e[2][2] if len(e[2]) > 2 else None)
                return out | (ids(sel) if sel is not None else set())
            if v is not None and v.get('k') == 'e':
                return out
            for a in e[2][1:]:
                out |= ids(a)
            return out
        if k == 'fn' and e[1] == 'IFERROR' and len(e[2]) == 2:
            v = known(e[2][0])
            out = walk(e[2][0])
            if v is not None and v.get('k') != 'e':
                return out
            return out | ids(e[2][1])
        if k == 'fn':
            out = set()
            for a in e[2]:
                out |= walk(a)
            return out
        if k == 'op':
            return walk(e[2]) | walk(e[3])
        if k == 'un':
            return walk(e[2])
        return set()
    c = g.cells.get(i)
    if not c or 'e' not in c:
        return set()
    return walk(c['e'])


def cut_matters(g, i, exp=None):
    """Whether some guard on the static cycles through cell i is selected towards them:
    only then does it matter at which guard the library cuts, and only then can a false
    mark on i be the recorded static-cut finding.  When every guarded reference inside the
    component sits in an unselected branch, a cut at any guard resolves it."""
    up = upstream(g, i)
    comp = {x for x in up if i in upstream(g, x)}
    return any(selected_guarded_deps(g, x) & comp for x in comp)


def upstream(g, i):
    """The cells cell i reads, directly or not (itself included)."""
    seen, stack = set(), [i]
    while stack:
        x = stack.pop()
        if x in seen or x not in g.cells:
            continue
        seen.add(x)
        stack.extend(G.deps(g, x))
        c = g.cells[x]
        if c['k'] == 'sp':
            stack.append(c['anchor'])
    return seen


def main():
    rep = Report(PID)
    thorough = tier() == 'thorough'
    wd = workdir('c10')
    try:
        # ---- the algorithm --------------------------------------------------
        r = run_tlc('Cycles', 'Cycles.cfg', timeout=2500, heap='8g')
        rep.add_tlc(r, 'Cycles (N=3): Johnson with every choice sequence; Sound EachOnce Termination')
        re_ = run_tlc('Cycles', 'CyclesEmit.cfg', timeout=2500, heap='8g')
        rep.add_tlc(re_, 'Cycles (N=4): Elementary(G) of all 65 536 digraphs emitted')
        obl = {}
        for o in parse_obl(re_['out']):
            obl[json.dumps(o['g'])] = o
        obl = list(obl.values())
        if len(obl) != 65536:
            raise MachineryError('expected 65536 graphs, got %d' % len(obl))
        rnd = random.Random(seed() * 3 + 1)
        # random larger graphs (5-7 nodes) for the trace validation
        big = []
        for _ in range(300 if not thorough else 3000):
            n = rnd.randint(5, 7)
            p = rnd.choice([0.15, 0.25, 0.35])
            big.append([[j + 1 for j in range(n) if rnd.random() < p] for i in range(n)])
        graphs = [o['g'] for o in obl] + big
        hashseeds = [0, 1, 2] if not thorough else [0, 1, 2, 3, 4, 5, 6, 7]
        # ---- cyclic workbooks -------------------------------------------------
        n = 150 if not thorough else 1500
        base = seed() * 100000 + 10000
        seeds = [base + i for i in range(n)]
        gens = {s: G.make_cyclic(s) for s in seeds}
        cases = [G.tla_case(gens[s]) for s in seeds]
        cf = os.path.join(wd, 'cases.json')
        of = os.path.join(wd, 'lazy.json')
        json.dump(cases, open(cf, 'w'))
        rl = run_tlc('Workbook', 'WorkbookLazy.cfg', env={'WB_FILE': cf, 'OUT_FILE': of},
                     timeout=2500, heap='8g')
        rep.add_tlc(rl, 'Workbook (lazy): every order of evaluation by need on %d cyclic '
                        'workbooks; LPartial LTotal' % n)
        lazy = json.load(open(of))
        jobs = []
        k = 0
        for hs in hashseeds:
            gparts = shards(list(range(len(graphs))), max(1, NCPU // len(hashseeds)))
            wparts = shards(seeds, max(1, NCPU // len(hashseeds)))
            for pi in range(max(len(gparts), len(wparts))):
                gi = gparts[pi] if pi < len(gparts) else []
                ws = wparts[pi] if pi < len(wparts) else []
                jf, of_ = os.path.join(wd, 'cj%d.json' % k), os.path.join(wd, 'co%d.json' % k)
                json.dump({'graphs': [graphs[i] for i in gi], 'gidx': gi, 'perm': hs * 100 + pi,
                           'wbs': [{'seed': s, 'path': 'dict' if (s + hs) % 2 == 0 else 'file'}
                                   for s in ws]}, open(jf, 'w'))
                jobs.append((hs, jf, of_))
                k += 1
        results = run_cyjobs(wd, jobs)
        expected = {i: set(tuple(c) for c in o['cycles']) for i, o in enumerate(obl)}
        traces, trace_of = [], []
        by_wb = {}
        idx = {s: k_ for k_, s in enumerate(seeds)}
        for (hs, jf, of_), (hs2, out) in zip(jobs, results):
            gidx = json.load(open(jf))['gidx']
            for rec in out['graphs']:
                gi = gidx[rec['i']]
                rep.count()
                if 'exc' in rec:
                    rep.violation({'kind': 'simple_cycles-' + rec['exc'], 'graph': json.dumps(graphs[gi])},
                                  {'graph': graphs[gi], 'hashseed': hs, 'exc': rec['exc']})
                    continue
                if gi < len(obl):
                    ys = [canon(c) for c in rec['yields']]
                    if len(expected[gi]) >= 2:
                        rep.distinct(('g', gi))
                    if set(ys) != expected[gi] or len(ys) != len(set(ys)):
                        rep.violation({'kind': 'cycles', 'graph': json.dumps(graphs[gi])},
                                      {'graph': graphs[gi], 'hashseed': hs,
                                       'expected': sorted(expected[gi]), 'yielded': rec['yields'],
                                       'how': 'formulas.excel.cycle.simple_cycles on string-named nodes, '
                                              'shuffled insertion order'})
                else:
                    traces.append({'n': len(graphs[gi]), 'adj': graphs[gi],
                                   'yields': rec['yields']})
                    trace_of.append((gi, hs))
            for rec in out['wbs']:
                g = gens[rec['seed']]
                exp = lazy[idx[rec['seed']]]
                rep.count()
                if not G.is_acyclic(g):
                    rep.distinct(('wb', rec['seed']))
                if rec['exc']:
                    kind = 'does-not-terminate' if rec['exc'] == 'Timeout' else 'raises'
                    rep.violation({'kind': kind, 'seed': rec['seed'], 'path': rec['path'],
                                   'exc': rec['exc'].split(':')[0]},
                                  {'workbook_seed': rec['seed'], 'path': rec['path'], 'hashseed': hs,
                                   'exc': rec['exc'], 'workbook': c03.describe(g)})
                    continue
                circ = V.E('CIRC')
                by_wb.setdefault(rec['seed'], []).append((hs, rec['path'], rec['obs']))
                # cells marked although evaluation by need gives them a value, with an
                # IF / IFERROR somewhere in what they read: the recorded static-cut finding;
                # whatever reads such a cell differs as a consequence of it
                false_marks = {j for j, ej in exp.items()
                               if ej != circ and rec['obs'].get(j) == circ
                               and any(has_lazy(g, x) and cut_matters(g, x, exp) for x in upstream(g, j))}
                # cells of an unavoidable cycle that do not show the mark: the mark was put on
                # one of their inputs and consumed by an ISERROR / IFERROR / COUNT on the cycle
                consumed = {j for j, ej in exp.items()
                            if ej == circ and rec['obs'].get(j) is not None and rec['obs'].get(j) != circ}
                for i, e in exp.items():
                    o = rec['obs'].get(i)
                    if o is None or not V.matches(e, o):
                        if e == circ and o is not None and (
                                has_interceptor(g, i) or (o.get('k') == 'e' and o != circ)):
                            # the marked cell's formula was evaluated once on the mark
                            sig = {'cat': 'cycle-cell-shows-its-formula-evaluated-on-the-mark'}
                        elif e == circ and o is not None and any(
                                has_interceptor(g, x) for x in upstream(g, i) if i in upstream(g, x)):
                            # ... the interceptor sits in another cell of the same cycle
                            sig = {'cat': 'cycle-cell-shows-its-formula-evaluated-on-the-mark'}
                        elif e != circ and o is not None and (upstream(g, i) & consumed):
                            # downstream of such a cell: an ordinary value instead of an error
                            sig = {'cat': 'cycle-cell-shows-its-formula-evaluated-on-the-mark'}
                        # (a false mark is the recorded finding only where the place of the cut
                        #  matters: some cell of the component reads another one by need)
                        elif e != circ and o == circ and has_lazy(g, i) and cut_matters(g, i, exp):
                            sig = {'cat': 'cycle-through-unselected-branches-not-resolved'}
                        elif e != circ and (upstream(g, i) & false_marks):
                            sig = {'cat': 'cycle-through-unselected-branches-not-resolved'}
                        elif e != circ and has_lazy(g, i) and has_interceptor(g, i) and \
                                any(i in upstream(g, d) for d in G.deps(g, i)):
                            # the cell lies on a static cycle that evaluation by need never
                            # enters; the mark put on one of its inputs is consumed by the
                            # cell's own ISERROR / IFERROR / COUNT
                            sig = {'cat': 'cycle-through-unselected-branches-not-resolved'}
                        else:
                            sig = {'kind': 'value', 'seed': rec['seed'], 'cell': i,
                                   'path': rec['path'], 'got': V.show(o) if o else None}
                        rep.violation(sig, {'workbook_seed': rec['seed'], 'path': rec['path'],
                                            'hashseed': hs, 'cell': i, 'expected': V.show(e),
                                            'observed': V.show(o) if o else None,
                                            'workbook': c03.describe(g),
                                            'how': 'finish(circular=True).calculate() with a watchdog'})
        # ---- the outcome does not depend on the hash seed or the load path -------------
        for s_, runs in by_wb.items():
            ref_hs, ref_path, ref = runs[0]
            for hs_, path_, obs in runs[1:]:
                diff = [i for i in set(ref) | set(obs)
                        if (V.show(ref[i]) if ref.get(i) else None) != (V.show(obs[i]) if obs.get(i) else None)]
                if diff:
                    i = sorted(diff)[0]
                    exp_ = lazy[idx[s_]]
                    on_cycle = all(exp_.get(x) in (V.E('CIRC'), {'k': 'anyerr'}) for x in diff)
                    g_ = gens[s_]
                    # whether the static analysis falsely marks a cell whose cycle closes only
                    # through an unselected branch (recorded finding) can itself depend on the
                    # order: one run has the expected value, the other the mark.  Only for the
                    # random workbooks - the rings and fans (every fifth seed) are resolved by
                    # the library under every order
                    circ_ = V.E('CIRC')
                    false_mark = (s_ % 5 != 0) and all(
                        exp_.get(x) is not None and exp_.get(x) != circ_ and
                        any(v_ is not None and V.matches(exp_[x], v_) for v_ in (ref.get(x), obs.get(x))) and
                        any(has_lazy(g_, y) for y in upstream(g_, x)) for x in diff)
                    rep.violation({'cat': 'which-cell-of-an-unavoidable-cycle-shows-the-mark-depends-on-order'}
                                  if on_cycle else
                                  {'cat': 'cycle-through-unselected-branches-not-resolved'} if false_mark else
                                  {'kind': 'hash-seed-or-path-dependence', 'seed': s_, 'cell': i},
                                  {'workbook_seed': s_, 'cell': i,
                                   'run_a': {'hashseed': ref_hs, 'path': ref_path,
                                             'value': V.show(ref[i]) if ref.get(i) else None},
                                   'run_b': {'hashseed': hs_, 'path': path_,
                                             'value': V.show(obs[i]) if obs.get(i) else None},
                                   'all_differing_cells': sorted(diff)[:8],
                                   'workbook': c03.describe(gens[s_]),
                                   'how': 'the same workbook calculated with finish(circular=True) '
                                          'under different PYTHONHASHSEED values / load paths'})
                    break
        # ---- trace validation of the yields on the larger graphs ----------------
        files = []
        for k_, part in enumerate(shards(traces, NCPU)):
            p = os.path.join(wd, 'ct%d.json' % k_)
            json.dump(part, open(p, 'w'))
            files.append((p, part))

        def val(a):
            return run_tlc('CyclesTrace', 'CyclesTrace.cfg', env={'TRACE_FILE': a[0]}, workers=1,
                           allow_error=True, heap='3g', timeout=2500)
        with ThreadPoolExecutor(max_workers=NCPU) as ex:
            vres = list(ex.map(val, files))
        ok, basei = 0, 0
        for (p, part), rt in zip(files, vres):
            if not rt['ok']:
                raise MachineryError('CyclesTrace failed:\n%s' % (rt['error'] or rt['out'][-1500:]))
            rep.add_tlc(rt, 'CyclesTrace: %d recorded runs' % len(part))
            rej = {}
            for line in rt['out'].splitlines():
                line = line.strip()
                if line.startswith('<<"REJECT"'):
                    f_ = [x.strip(' <>"') for x in line.split(',')]
                    rej.setdefault(int(f_[1]), f_[2])
            for i in range(1, len(part) + 1):
                gi, hs = trace_of[basei + i - 1]
                if i in rej:
                    rep.violation({'kind': 'trace-' + rej[i], 'graph': json.dumps(graphs[gi])},
                                  {'graph': graphs[gi], 'hashseed': hs, 'clause': rej[i],
                                   'yielded': part[i - 1]['yields']})
                else:
                    ok += 1
                    rep.distinct(('bg', gi))
            basei += len(part)
        rep.traces(ok)
        rep.sample({'graph': obl[4321]['g'], 'elementary_cycles': obl[4321]['cycles']})
        rep.sample({'cyclic_workbook': c03.describe(gens[seeds[0]])})
        rep.cov['rule'] = ('all digraphs on 4 nodes (self loops included) x hash seeds x shuffled '
                           'insertion orders; random digraphs on 5-7 nodes; seeded cyclic workbooks '
                           '(unguarded, IF-guarded, IFERROR-fallback, range and name back references) '
                           'x load path x order x hash seed; distinct non-trivial = graphs with >= 2 '
                           'cycles and workbooks with a dependency cycle')
        rep.cov['hashseeds'] = hashseeds
    finally:
        shutil.rmtree(wd, ignore_errors=True)
    return rep.finish()


if __name__ == '__main__':
    main_wrapper(main)
