"""C11 - worksheet functions are total and never lose an error value.

Calls.tla holds the function table (name, admissible argument counts, which
arguments are consumed) and enumerates, per signature class, the tuples of
argument descriptors (every tuple up to three arguments, all pairs of
positions beyond).  Every (function, tuple) is a call made on the real table:
the formula is compiled by the real parser and evaluated with the referenced
ranges supplied (raw result, so arrays are seen whole) and, for a sample,
through Cell and a Dispatcher.  The answer is classified and must be in
Calls!Allowed; the recorded calls are validated by CallsTrace.tla.
"""
import os
import json
import random
import tempfile
import collections
from ..common import (Report, main_wrapper, seed, tier, shards, pmap, MachineryError, NCPU,
                      workdir)
from ..tlc import run_tlc, parse_obl
from .. import values as V
from .. import impl

PID = 'C11'
GROUPS = ['small', 'three', 'wide']
NOT_CALLED = {'ARRAY', 'ARRAYROW', 'DUMMYFUNCTION', '__XLUDF.DUMMYFUNCTION'}

ERR_DESC = {'na', 'div0', 'rerr', 'literr'}
ARRAYS = {'rnum', 'rcol', 'rerr', 'rmix', 'lit', 'literr'}


def category(fn, what, args):
    """Signatures of the deviations recorded in known_findings.jsonl."""
    if what == 'raise:DispatcherError/BroadcastError':
        return 'mismatched-array-shapes-raise-BroadcastError'
    return None


LITERAL = {'num': '2', 'zero': '0', 'neg': '-1', 'frac': '2.5', 'big': '1000', 'text': '"abc"',
           'numtext': '"3"', 'empty': '""', 'true': 'TRUE', 'false': 'FALSE', 'na': '#N/A',
           'div0': '#DIV/0!', 'lit': '{1,2;3,4}', 'literr': '{1,#DIV/0!}',
           'datetext': '"1/2/2020"', 'farDate': '"1/1/10000"'}


def ref_values():
    import schedula as sh
    f = impl.F()
    from formulas.tokens.operand import Error
    NA = Error.errors['#N/A']
    # (the error of rerr sits against the text of rmix; enough numeric pairs remain for
    #  the two-array statistics to have a value when that pair is dropped)
    return {'blank': [[sh.EMPTY]], 'rnum': [[1, 2, 3, 5, 8]], 'rcol': [[3], [1], [2]],
            'rerr': [[1, NA, 3, 4, 6]], 'rmix': [[2, 'x', 7, True, sh.EMPTY]]}


SHAPES = {'blank': (1, 1), 'rnum': (1, 5), 'rcol': (3, 1), 'rerr': (1, 5), 'rmix': (1, 5)}


def render(fn, args):
    parts, inputs = [], {}
    row = 1
    for d in args:
        if d in LITERAL:
            parts.append(LITERAL[d])
            continue
        R, C = SHAPES[d]
        ref = 'A%d' % row
        if (R, C) != (1, 1):
            ref += ':%s%d' % (chr(64 + C), row + R - 1)
        inputs[ref] = d
        parts.append(ref)
        row += R + 1
    return '=%s(%s)' % (fn, ','.join(parts)), inputs


def classify(val):
    """Answer class of Calls.tla for a python result."""
    a = V.alpha(val)
    k = a.get('k')
    if k == 'f':
        return 'number', ''
    if k in ('t', 'b', 'e', 'z'):
        return {'t': 'text', 'b': 'logical', 'e': 'error', 'z': 'blank'}[k], ''
    if k == 'a':
        has_err = False
        for r in a['rows']:
            for x in r:
                kk = x.get('k')
                if kk == 'foreign':
                    rp = x.get('repr', '')
                    return ('nonfinite' if rp in ('nan', 'inf', '-inf') else 'foreign'), rp[:60]
                if kk == 'e':
                    has_err = True
        return ('array-with-error' if has_err else 'array'), ''
    rp = a.get('repr', '')
    return ('nonfinite' if rp in ('nan', 'inf', '-inf') else 'foreign'), rp[:60]


def raw_eval(formula, inputs):
    f = impl.F()
    from formulas.ranges import Ranges
    func = f.Parser().ast(formula)[1].compile()
    rv = ref_values()
    args = [Ranges().push(name, rv[inputs[name]]) for name in func.inputs]
    return func(*args)


def cell_eval(formula, inputs):
    rv = ref_values()
    return impl.cell_eval('Z90', formula, {k: rv[d] for k, d in inputs.items()}, cache=False)


def _shard(items):
    impl.F()
    out = []
    for fn, args, must, via_cell in items:
        formula, inputs = render(fn, args)
        routes = [('raw', raw_eval)] + ([('cell', cell_eval)] if via_cell else [])
        raw_note = None
        for rname, route in routes:
            st, val = impl.observe(impl.with_timeout, route, 10, formula, inputs)
            if st == 'raise':
                ans, note = 'raise', val.split(':')[0]
                if rname == 'raw':
                    raw_note = note
                elif note == 'KeyError' and raw_note:
                    # the dispatcher swallowed the failure of the function: no output node
                    note = raw_note
            else:
                ans, note = classify(val)
            ok = ans in ('number', 'text', 'logical', 'error', 'blank', 'array', 'array-with-error')
            # a single cell shows the first element of an array only: the error-keeping
            # clause is decided on the raw result
            if ok and must and rname == 'raw' and ans not in ('error', 'array-with-error'):
                ok = False
                note = 'error-lost'
            out.append((fn, args, must if rname == 'raw' else False, rname, formula, ans, note, ok))
    return out


def _validate(args):
    path, = args
    return run_tlc('CallsTrace', 'CallsTrace.cfg', env={'TRACE_FILE': path},
                   workers=1, allow_error=True, heap='3g', timeout=1500)


def main():
    rep = Report(PID)
    thorough = tier() == 'thorough'
    f = impl.F()
    obl, table = [], None
    for g in GROUPS:
        src = open('/verif/spec/Calls_%s.cfg' % g).read().replace('EmitObl = FALSE', 'EmitObl = TRUE')
        tmp = 'Calls_%s_run%d.cfg' % (g, os.getpid())
        open(os.path.join('/verif/spec', tmp), 'w').write(src)
        try:
            r = run_tlc('Calls', tmp, timeout=1500, heap='8g')
        finally:
            os.remove(os.path.join('/verif/spec', tmp))
        rep.add_tlc(r, 'Calls (%s): every call of the signature classes, every answer the '
                       'contract admits; Total ErrorKept' % g)
        part = parse_obl(r['out'])
        obl.extend(part)
        for line in r['out'].splitlines():
            if line.startswith('"TABLE '):
                table = json.loads(json.loads(line)[6:])
    if table is None:
        raise MachineryError('Calls: no function table emitted')
    by_sig = collections.defaultdict(list)
    for o in obl:
        s = o['sig']
        key = (s['lo'], s['hi'], s['mode'], tuple(sorted(s['pos'])), s['ref'], s['first'])
        by_sig[key].append((tuple(o['args']), o['mustErr']))
    # the table against the implementation
    impl_names = set(f.get_functions())
    base = {n for n in impl_names if not n.startswith('_XLFN')} - NOT_CALLED
    tnames = {t['n'] for t in table}
    missing = sorted(base - tnames)
    rep.cov['table'] = {'functions_in_table': len(tnames), 'implemented': len(base),
                        'implemented_but_not_in_table': missing,
                        'in_table_but_not_implemented': sorted(tnames - impl_names)}
    rnd = random.Random(seed() * 11 + 3)
    calls = []
    for t in table:
        if t['n'] not in impl_names:
            continue
        key = (t['lo'], t['hi'], t['mode'], tuple(sorted(t['pos'])), t['ref'], t['first'])
        cases = by_sig.get(key)
        if cases is None:
            raise MachineryError('no cases for the signature class of %s' % t['n'])
        names = [t['n']]
        for pre in ('_XLFN.', '_XLFN._XLWS.'):
            if pre + t['n'] in impl_names:
                names.append(pre + t['n'])
        for args, must in cases:
            calls.append((t['n'], args, must))
        # the _XLFN. spellings run the same code: a sample of their cases
        for alias in names[1:]:
            for args, must in rnd.sample(cases, min(len(cases), 40)):
                calls.append((alias, args, must))
    rnd.shuffle(calls)
    total_calls = len(calls)
    if not thorough:
        # every function keeps all its calls up to 400, the rest is sampled
        per = collections.defaultdict(list)
        for c in calls:
            per[c[0]].append(c)
        calls = []
        for fn, lst in per.items():
            calls.extend(lst[:400])
    calls = [(fn, args, must, (i % 4 == 0)) for i, (fn, args, must) in enumerate(calls)]
    res = []
    for part in pmap(_shard, shards(calls, NCPU * 8), chunk=1):
        res.extend(part)
    bad = 0
    for fn, args, must, rname, formula, ans, note, ok in res:
        rep.count()
        rep.distinct((fn, args, rname))
        if not ok:
            bad += 1
            what = note if ans != 'nonfinite' else 'nonfinite'
            if ans == 'raise':
                what = 'raise:' + note
            elif ans == 'foreign':
                what = 'foreign:' + note.split(':')[0]
            base = fn.replace('_XLFN._XLWS.', '').replace('_XLFN.', '')
            errs = ['%d:%s' % (i + 1, d) for i, d in enumerate(args) if d in ERR_DESC]
            cat = category(base, what, args)
            rep.violation({'cat': cat} if cat else
                          {'fn': base, 'what': what, 'errors_at': ','.join(errs)},
                          {'function': fn, 'formula': formula, 'arguments': list(args),
                           'route': rname, 'answer': ans, 'note': note,
                           'must_be_error': must,
                           'how': 'raw: Parser().ast(formula)[1].compile()(*ranges); '
                                  'cell: Cell(Z90, formula) through a Dispatcher'})
    # trace validation of the recorded calls by CallsTrace.tla
    evs = [{'fn': fn.replace('_XLFN._XLWS.', '').replace('_XLFN.', ''), 'args': list(args), 'ans': ans,
            'must': must, 'ok': ok}
           for fn, args, must, rname, formula, ans, note, ok in res if rname == 'raw']
    rnd.shuffle(evs)
    n_tr = len(evs) if thorough else min(len(evs), 48000)
    bad_evs = [e for e in evs if not e['ok']]
    sample = evs[:n_tr]
    wd = workdir('c11')
    try:
        files = []
        for i, part in enumerate(shards(sample, NCPU)):
            if not part:
                continue
            p = os.path.join(wd, 'trace%d.json' % i)
            with open(p, 'w') as fh:
                json.dump([{'fn': e['fn'], 'args': e['args'], 'ans': e['ans']} for e in part], fh)
            files.append((p, part))
        results = pmap(_validate, [(p,) for p, _ in files], procs=NCPU)
        accepted = 0
        for (p, part), r in zip(files, results):
            if not r['ok'] and 'REJECT' not in r['out']:
                raise MachineryError('CallsTrace failed:\n%s' % (r['error'] or r['out'][-1500:]))
            rejected = set()
            for line in r['out'].splitlines():
                line = line.strip()
                if line.startswith('<<"REJECT"'):
                    rejected.add(int(line.split(',')[1].strip(' >')))
            if 'TraceAccepted' in (r['error'] or '') or 'diameter' in (r['error'] or ''):
                raise MachineryError('CallsTrace did not consume its trace: %s' % r['error'])
            rep.add_tlc(r, 'CallsTrace: %d recorded calls' % len(part))
            for idx, e in enumerate(part, 1):
                if (idx in rejected) != (not e['ok']):
                    raise MachineryError('CallsTrace and the replay disagree on %r' % (e,))
                if idx not in rejected:
                    accepted += 1
        rep.traces(accepted)
    finally:
        import shutil
        shutil.rmtree(wd, ignore_errors=True)
    for fn, args, must, rname, formula, ans, note, ok in res[:6]:
        rep.sample({'formula': formula, 'answer': ans})
    rep.cov['rule'] = ('every function of the table x every admissible argument count (variadic: up '
                       'to 3) x argument tuples over 21 descriptors (numbers, text, numeric text, date text, '
                       'empty text, logicals, blank reference, two error values, referenced row / '
                       'column / row with an error / mixed row, array literal with and without an '
                       'error): all tuples up to 3 arguments, all pairs of positions beyond; '
                       '%d calls in the space, %d made in this tier' % (total_calls, len(calls)))
    rep.cov['exhaustive'] = thorough
    return rep.finish()


if __name__ == '__main__':
    main_wrapper(main)
