"""C12 - the core function library matches its Excel definitions.

FnDef.tla states each listed function from its Excel definition over exact
values; Fns.tla is the one-step machine over four families of cases (agg,
logic, math, text) and checks the laws that tie the definitions together.
Every state is an obligation: the call is written as a formula (directly
typed values as literals, referenced ranges as ranges whose cells - blanks
included - are supplied as inputs, array literals as literals) and evaluated
by Cell; the value must be in the class the definition gives.
"""
import os
import json
import random
from ..common import (Report, main_wrapper, seed, tier, shards, pmap, MachineryError, NCPU)
from ..tlc import run_tlc, parse_obl
from .. import values as V
from .. import impl

PID = 'C12'
FAMILIES = ['agg', 'logic', 'math', 'text', 'lift']


def _col(i):
    return chr(64 + i)


def _whole(v):
    return v.get('k') == 'n' and v['d'] == 1 and not v.get('e', 0)


def has_whole(o):
    """Some whole number among the directly typed values / the referenced cells."""
    for a in o['args']:
        if a['f'] == 'v':
            if _whole(a['v']):
                return True
        elif a['f'] == 'r' and any(_whole(x) for r in a['v']['rows'] for x in r):
            return True
    return False


def render(o, floats=False):
    """(formula text, inputs) of an obligation.  floats: whole numbers are typed 2.0 and
    referenced cells hold floats (a file gives either an int or a float)."""
    import schedula as sh
    parts, inputs = [], {}
    row = 1
    for a in o['args']:
        if a['f'] == 'v':
            t = V.lit(a['v'])
            if floats and _whole(a['v']):
                t = t + '.0' if not t.startswith('(') else t
                if t.startswith('-'):
                    t = '(%s)' % t
            parts.append(t)
            continue
        rows = a['v']['rows']
        if a['f'] == 'a':
            parts.append('{%s}' % ';'.join(','.join(V.lit(x) for x in r) for r in rows))
            continue
        R, C = len(rows), len(rows[0])
        ref = _col(1) + str(row)
        if (R, C) != (1, 1):
            ref += ':%s%d' % (_col(C), row + R - 1)
        vals = []
        for r in rows:
            line = []
            for x in r:
                if x['k'] == 'z':
                    line.append(sh.EMPTY)
                else:
                    cv = V.cellval(x)
                    cv = cv[0][0] if isinstance(cv, list) else cv
                    if floats and isinstance(cv, int) and not isinstance(cv, bool):
                        cv = float(cv)
                    line.append(cv)
            vals.append(line)
        inputs[ref] = vals
        parts.append(ref)
        row += R + 1
    return '=%s(%s)' % (o['fn'], ','.join(parts)), inputs


def _shard(items):
    impl.F()
    res = []
    work = []
    for o in items:
        work.append((o, False))
        if has_whole(o):
            work.append((o, True))
    for o, floats in work:
        formula, inputs = render(o, floats)
        ref = 'Z90'
        if o['exp'].get('k') == 'a':
            # an array result is observed over a destination range of its own shape
            R, C = len(o['exp']['rows']), len(o['exp']['rows'][0])
            ref = 'T50' if (R, C) == (1, 1) else 'T50:%s%d' % (chr(ord('T') + C - 1), 50 + R - 1)
        st, val = impl.observe(impl.with_timeout, impl.cell_eval, 20, ref, formula, inputs)
        if st == 'raise':
            obs, ok, got = None, False, 'raise:' + val[:100]
        else:
            obs = V.alpha(val)
            ok = V.matches(o['exp'], obs)
            got = V.show(obs) if obs.get('k') != 'foreign' else 'foreign:' + obs.get('repr', '')
        res.append((o['fn'], formula, sorted(inputs), ok, V.show(o['exp']), got, o))
    return res


def kinds_of(o):
    ks = set()
    for a in o['args']:
        if a['f'] == 'v':
            ks.add('direct-' + a['v']['k'])
        else:
            for r in a['v']['rows']:
                for x in r:
                    ks.add(('ref-' if a['f'] == 'r' else 'lit-') + x['k'])
    return ks


def categorize(fn, formula, want, got, o):
    """Signatures of the deviations recorded in known_findings.jsonl."""
    from ..findings_c12 import category
    return category(fn, formula, want, got, o)


def main():
    rep = Report(PID)
    thorough = tier() == 'thorough'
    obl, extra = [], []
    for fam in FAMILIES + ['extra', 'more']:
        src = open('/verif/spec/Fns_%s.cfg' % fam).read().replace('EmitObl = FALSE', 'EmitObl = TRUE')
        tmp = 'Fns_%s_run%d.cfg' % (fam, os.getpid())
        open(os.path.join('/verif/spec', tmp), 'w').write(src)
        try:
            r = run_tlc('Fns', tmp, timeout=1500, heap='8g')
        finally:
            os.remove(os.path.join('/verif/spec', tmp))
        rep.add_tlc(r, 'Fns (%s): every case of the family; the laws of Fns.tla' % fam)
        part = parse_obl(r['out'])
        if len(part) * 2 != r['distinct']:
            raise MachineryError('Fns %s: %d obligations for %d states' % (fam, len(part), r['distinct']))
        if fam in ('extra', 'more'):
            extra = extra + part
            continue
        obl.extend(part)
    rnd = random.Random(seed() * 31 + 5)
    rnd.shuffle(obl)
    # every case of one function in one process (in shuffled order): what one call leaves
    # behind - a memo keyed by == that takes 1 for TRUE - shows in the next
    by_fn = {}
    for o in obl:
        by_fn.setdefault(o['fn'], []).append(o)
    groups = sorted(by_fn.values(), key=len, reverse=True)
    bins = [[] for _ in range(NCPU * 4)]
    for g_ in groups:
        min(bins, key=len).extend(g_)
    res = []
    for part in pmap(_shard, [b for b in bins if b], chunk=1):
        res.extend(part)
    for fn, formula, inp, ok, want, got, o in res:
        rep.count()
        rep.distinct((fn, formula, json.dumps(inp)))
        if not ok:
            cat = categorize(fn, formula, want, got, o)
            rep.violation({'cat': cat} if cat else {'fn': fn, 'formula': formula, 'got': got},
                          {'function': fn, 'formula': formula, 'expected': want, 'observed': got,
                           'inputs': {k: V.show({'k': 'a', 'rows': a['v']['rows']})
                                      for k, a in zip(inp, [x for x in o['args'] if x['f'] == 'r'])},
                           'how': "Cell('Z90' or a range of the result's shape, formula) with the "
                                  "referenced ranges supplied"})
    rep.traces(len(res))
    # beyond the list of C12: MAXA MINA AVERAGEA GCD LCM T CODE CHAR FACT MROUND (FnDef.tla) and
    # PERCENTILE / QUARTILE (.INC .EXC), CEILING.MATH FLOOR.MATH CEILING.PRECISE FLOOR.PRECISE
    # ISO.CEILING, FACTDOUBLE, MMULT MDETERM MUNIT TRANSPOSE (FnMore.tla) are defined too; they
    # are replayed for information, a disagreement is not a C12 violation
    xres = []
    for part in pmap(_shard, shards(extra, NCPU * 2), chunk=1):
        xres.extend(part)
    by = {}
    for fn, formula, inp, ok, want, got, o in xres:
        e = by.setdefault(fn, {'agree': 0, 'differ': 0, 'examples_of_difference': []})
        if ok:
            e['agree'] += 1
        else:
            e['differ'] += 1
            if len(e['examples_of_difference']) < 4:
                e['examples_of_difference'].append({'formula': formula, 'spec': want, 'code': got})
    rep.cov['beyond_property'] = {
        'note': 'functions outside the list of C12, defined in FnDef.tla and replayed for information',
        'functions': by}
    for fn, formula, inp, ok, want, got, o in res[:6]:
        rep.sample({'formula': formula, 'expected': want})
    rep.cov['rule'] = ('every case of Fns.tla: 17 aggregations x argument lists (directly typed / '
                       'referenced / array literal, mixed kinds), 9 logical and 10 information '
                       'functions over all value kinds, 30 mathematical functions (rounding over '
                       'halves and exact decimals x digits -3..3, sign cases of MOD / CEILING / '
                       'FLOOR), 15 text functions (positions 0 / negative / past the end, wild '
                       'cards, optional arguments); element-wise functions over row / column / square '
                       'arrays and broadcasts of them; distinct by formula text and inputs')
    rep.cov['exhaustive'] = True
    return rep.finish()


if __name__ == '__main__':
    main_wrapper(main)
