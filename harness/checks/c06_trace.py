"""C06, direction code -> spec: random multi-area operands on two sheets."""
import os
import json
import random
import shutil
from ..common import seed, tier, pmap, shards, MachineryError, NCPU, workdir
from ..tlc import run_tlc
from .. import impl
from . import c06


def rnd_rect(rnd, g):
    c1, c2 = sorted((rnd.randint(1, g), rnd.randint(1, g)))
    r1, r2 = sorted((rnd.randint(1, g), rnd.randint(1, g)))
    s = 2 if rnd.random() < 0.15 else 1
    return {'s': s, 'n1': c1, 'r1': r1, 'n2': c2, 'r2': r2}


def rect_of(r):
    return {'s': 2 if r.get('sheet_id') else 1, 'n1': r['n1'], 'r1': int(r['r1']),
            'n2': r['n2'], 'r2': int(r['r2'])}


def _run(cases):
    impl.F()
    from formulas.errors import InvalidRangeError
    out = []
    for op, A, B in cases:
        a, b = c06.mk(A), (c06.mk(B) if B else None)
        try:
            r = c06.apply(op, a, b)
            res = {'k': 'list', 'l': [rect_of(x) for x in r.ranges]}
        except InvalidRangeError:
            res = {'k': 'err'}
        except BaseException as ex:  # noqa
            if isinstance(ex, (KeyboardInterrupt, SystemExit)):
                raise
            res = {'k': 'raise', 'exc': type(ex).__name__}
        out.append({'op': op, 'a': A, 'b': B, 'res': res})
    return out


def _validate(path):
    return run_tlc('RectsTrace', 'RectsTrace.cfg', env={'TRACE_FILE': path},
                   workers=1, allow_error=True, heap='3g')


def run(rep):
    n = 3000 if tier() == 'quick' else 60000
    rnd = random.Random(seed() * 7 + 3)
    cases = []
    for _ in range(n):
        op = rnd.choice(['and', 'or', 'add', 'sub', 'simplify'])
        g = rnd.choice([3, 5, 7])
        A = [rnd_rect(rnd, g) for _ in range(rnd.randint(1, 3))]
        B = [] if op == 'simplify' else [rnd_rect(rnd, g) for _ in range(rnd.randint(1, 3))]
        if op == 'simplify' and len({x['s'] for x in A}) > 1:
            A = [dict(x, s=1) for x in A]
        cases.append((op, A, B))
    evs = []
    for part in pmap(_run, shards(cases, NCPU * 2), chunk=1):
        evs.extend(part)
    wd = workdir('c06t')
    try:
        files = []
        for k, part in enumerate(shards(evs, NCPU)):
            p = os.path.join(wd, 't%d.json' % k)
            json.dump(part, open(p, 'w'))
            files.append((p, part))
        results = pmap(_validate, [p for p, _ in files], procs=NCPU, chunk=1)
        ok = 0
        for (p, part), r in zip(files, results):
            if not r['ok']:
                raise MachineryError('RectsTrace failed:\n%s' % (r['error'] or r['out'][-1500:]))
            rep.add_tlc(r, 'RectsTrace: %d events' % len(part))
            rej = {}
            for line in r['out'].splitlines():
                line = line.strip()
                if line.startswith('<<"REJECT"'):
                    f = [x.strip(' <>"') for x in line.split(',')]
                    rej.setdefault(int(f[1]), f[2])
            for i, ev in enumerate(part, 1):
                rep.count()
                if ev['res'].get('k') == 'raise':
                    rep.violation(dict(c06.sig_of(ev, 'raises'), exc=ev['res']['exc']),
                                  {'event': ev})
                elif i in rej:
                    rep.violation(c06.sig_of(ev, 'trace-' + rej[i]), {
                        'event': ev, 'clause': rej[i],
                        'how': 'Ranges op on random multi-area operands; event '
                               'rejected by RectsTrace.tla'})
                else:
                    ok += 1
                    rep.distinct(('t', ev['op'], json.dumps(ev['a']), json.dumps(ev['b'])))
        rep.traces(ok)
        rep.sample({'trace_event': evs[0]})
    finally:
        shutil.rmtree(wd, ignore_errors=True)
