"""C02 - operators implement Excel's scalar semantics for every kind of operand.

spec/XlOps.tla: TLC checks the operator theorems over the whole pool and emits
the complete (operator x operand x operand) table; every entry is replayed on
the real code in two spellings (literals in a parsed formula; values supplied
to referenced cells).  Direction code->spec: seeded random floats are evaluated
by the real code and the recorded events are validated by XlOpsTrace.tla.
"""
import os
import json
import random
import shutil
from ..common import (Report, main_wrapper, workdir, seed, tier, pmap, shards,
                      MachineryError)
from ..tlc import run_tlc
from .. import values as V
from .. import impl

PID = 'C02'
BIN_TXT = {'u-': '-', 'u+': '+'}


def _operand_text(a):
    s = V.lit(a)
    if s is None:
        return None
    if a['k'] == 'n' and (a['n'] < 0):
        return '(%s)' % s
    return s


def _case_formulas(op, a, b):
    """(route, formula, inputs) spellings of one abstract case."""
    out = []
    la = _operand_text(a)
    lb = _operand_text(b) if b is not None else None
    if b is None:
        if la is not None:
            f = '=(%s)%%' % la if op == '%' else '=%s(%s)' % (BIN_TXT[op], la)
            out.append(('lit', f, None))
        f = '=A1%' if op == '%' else '=%sA1' % BIN_TXT[op]
        out.append(('cell', f, {'A1': a}))
    else:
        if la is not None and lb is not None:
            out.append(('lit', '=%s%s%s' % (la, op, lb), None))
        out.append(('cell', '=A1%sB1' % op, {'A1': a, 'B1': b}))
        # the operands as *results* of other operators (numpy scalars inside the library):
        # the same value must behave the same wherever it comes from
        wrap = {'n': 'SUM(%s)', 't': '(%s&"")', 'b': 'IF(%s,SUM(1)=1,SUM(1)=2)'}

        def comp(v, ref):
            if v['k'] in wrap and not v.get('e', 0):
                return wrap[v['k']] % ref
            return ref
        ca, cb = comp(a, 'A1'), comp(b, 'B1')
        if (ca, cb) != ('A1', 'B1'):
            out.append(('cell', '=%s%s%s' % (ca, op, cb), {'A1': a, 'B1': b}))

        def comp_lit(v, t):
            if v['k'] == 'b':
                return 'ISNUMBER(1)' if v['b'] else 'ISERROR(1)'
            if v['k'] == 'n' and not v.get('e', 0):
                return 'SUM(%s)' % t
            return t
        if la is not None and lb is not None:
            xa, xb = comp_lit(a, la), comp_lit(b, lb)
            if (xa, xb) != (la, lb):
                out.append(('lit', '=%s%s%s' % (xa, op, xb), None))
    return out


def _py_display(a):
    """How the pinned code displays a number of magnitude 1e+-200 (known
    finding), the spec's display form otherwise."""
    if a['k'] == 'n' and a.get('e', 0):
        x = V.num_of(a)
        return '%d' % x if x.is_integer() else str(x)
    return None


def _only_float_display(c, obs):
    """True when a & result differs from the spec only in the display form of
    a 1e+-200 operand."""
    if c['op'] != '&' or obs.get('k') != 't' or c['b'] is None:
        return False
    parts = []
    hit = False
    for v in (c['a'], c['b']):
        alt = _py_display(v)
        if alt is None:
            if v['k'] == 'n':
                parts.append(V.num_lit(v))
            elif v['k'] == 't':
                parts.append(V.text_of(v))
            elif v['k'] == 'b':
                parts.append('TRUE' if v['b'] else 'FALSE')
            elif v['k'] == 'z':
                parts.append('')
            else:
                return False
        else:
            hit = True
            parts.append(alt)
    return hit and V.text_of(obs) == ''.join(parts)


def _run_shard(cases):
    impl.F()
    res = []
    for c in cases:
        op, a, b, exp = c['op'], c['a'], c['b'], c['exp']
        for route, formula, inputs in _case_formulas(op, a, b):
            if route == 'lit':
                st, val = impl.observe(impl.formula_eval, formula)
            else:
                inp = {k: V.cellval(v) for k, v in inputs.items()}
                st, val = impl.observe(impl.cell_eval, 'C1', formula, inp)
            if st == 'raise':
                obs = {'k': 'raise', 'repr': val}
                ok = False
            else:
                obs = V.alpha(val)
                ok = V.matches(exp, obs)
            res.append((c['id'], route, formula, ok, obs))
            if route == 'cell' and st != 'raise' and set(inputs) <= {'A1', 'B1'} and \
                    formula in ('=A1%sB1' % op, '=A1%', '=%sA1' % BIN_TXT.get(op, op)):
                # XlOps!OperandsKept: the operator leaves its operands as they were
                try:
                    ch = impl.operands_kept(formula, inp)
                except BaseException as ex:  # noqa
                    if isinstance(ex, (KeyboardInterrupt, SystemExit)):
                        raise
                    ch = []
                if ch:
                    res.append((c['id'], 'kept', formula, False,
                                {'k': 'changed', 'repr': '; '.join('%s: %s -> %s' % x for x in ch)}))
    return res


def main():
    rep = Report(PID)
    wd = workdir('c02')
    try:
        out = os.path.join(wd, 'table.json')
        r = run_tlc('XlOps', 'XlOps.cfg', env={'OUT_FILE': out})
        rep.add_tlc(r, 'XlOps: all (operator, operand, operand) cases; '
                       'WellFormed LeftmostError CmpIsBool ConcatIsText '
                       'CoercionConsistent + ASSUME TotalOrder Transitive '
                       'RankMonotone NegInvolution')
        tab = json.load(open(out))
        pool = tab['pool']
        cases = []
        for op, rows in tab['bin'].items():
            for i, row in enumerate(rows):
                for j, exp in enumerate(row):
                    cases.append({'id': len(cases), 'op': op, 'a': pool[i],
                                  'b': pool[j], 'exp': exp})
        for op, row in tab['un'].items():
            for i, exp in enumerate(row):
                cases.append({'id': len(cases), 'op': op, 'a': pool[i],
                              'b': None, 'exp': exp})
        if r['distinct'] < len(cases):
            raise MachineryError('TLC explored fewer states than cases')
        rnd = random.Random(seed())
        order = list(cases)
        rnd.shuffle(order)
        results = []
        for part in pmap(_run_shard, shards(order, 64)):
            results.extend(part)
        byid = {c['id']: c for c in cases}
        for cid, route, formula, ok, obs in results:
            c = byid[cid]
            rep.count()
            rep.distinct((c['op'], V.show(c['a']),
                          V.show(c['b']) if c['b'] else ''))
            if not ok and _only_float_display(c, obs):
                rep.violation({'op': '&', 'cat': 'display-of-1e+-200'},
                              {'formula': formula, 'observed': obs,
                               'expected': V.show(c['exp'])})
            elif not ok and route == 'kept':
                rep.violation({'kind': 'operand-changed', 'op': c['op'], 'a': V.show(c['a']),
                               'b': V.show(c['b']) if c['b'] else ''},
                              {'route': 'kept', 'formula': formula, 'changed': obs['repr'],
                               'how': "Parser().ast(formula)[1].compile() called on Ranges holding the "
                                      "operands; the Ranges are read again afterwards (XlOps!OperandsKept)"})
            elif not ok:
                sig = {'op': c['op'], 'a': V.show(c['a']),
                       'b': V.show(c['b']) if c['b'] else '',
                       'got': V.show(obs) if obs['k'] != 'raise' else
                       'raise:' + obs['repr'].split(':')[0]}
                rep.violation(sig, {
                    'route': route, 'formula': formula,
                    'inputs': {'A1': V.show(c['a']),
                               'B1': V.show(c['b']) if c['b'] else None},
                    'expected': V.show(c['exp']), 'observed': obs,
                    'how': "route lit: Parser().ast(formula)[1].compile()(); "
                           "route cell: Cell('C1', formula) in a dispatcher "
                           "with A1/B1 supplied"})
        for c in order[:4]:
            rep.sample({'op': c['op'], 'a': V.show(c['a']),
                        'b': V.show(c['b']) if c['b'] else None,
                        'expected': V.show(c['exp']),
                        'spellings': [f for _, f, _ in _case_formulas(
                            c['op'], c['a'], c['b'])]})
        rep.cov['rule'] = (
            'every (operator, left operand, right operand) over the %d-value '
            'pool of XlOps.tla x {literal route, cell route}; a case is '
            'distinct by (operator, operands); all are non-trivial (each is '
            'one row of the operator table)' % len(pool))
        rep.cov['exhaustive'] = True
        rep.traces(0)
        from . import c02_trace
        c02_trace.run(rep, wd)
    finally:
        shutil.rmtree(wd, ignore_errors=True)
    return rep.finish()


if __name__ == '__main__':
    main_wrapper(main)
