"""C04 - every spelling of a reference denotes the same node; distinct ones differ.

Refs.tla: column letters are bijective base 26 (all 16 384 columns), and the
space of spellings (style x sheet part x workbook part x host) of rectangles
over boundary columns / rows with their denotations.  Every spelling is
rendered to text and resolved by the real code in three ways (Range token,
Ranges.push, inputs of a compiled formula); the partition of spellings by the
code's identifiers must equal the partition by denotation, identifiers must
read back to themselves, and _index2col / _col2index must agree with the spec
for every column.  The identifier text itself is never predicted.
"""
import os
import json
import random
import collections
from ..common import (Report, main_wrapper, seed, tier, shards, pmap, MachineryError, NCPU)
from ..tlc import run_tlc, parse_obl
from .. import impl

PID = 'C04'
SHEETS = ['SHEET1', 'DATA 2', 'S.3', "IT'S", 'TRUE']
BOOKS = ['BOOK.XLSX', 'OTHER.XLSX', '2020 DATA.XLSX']


def letters(n):
    s = ''
    while n:
        n, r = divmod(n - 1, 26)
        s = chr(65 + r) + s
    return s


def ref_text(sp):
    st = sp['style']
    c1, r1, c2, r2 = sp['c1'], sp['r1'], sp['c2'], sp['r2']
    single = (c1, r1) == (c2, r2)
    A, B = letters(c1), letters(c2)
    if st in ('A1', 'a1', '$A$1', 'A$1'):
        def cell(c, r):
            if st == '$A$1':
                return '$%s$%d' % (c, r)
            if st == 'A$1':
                return '%s$%d' % (c, r)
            return '%s%d' % (c, r)
        t = cell(A, r1) if single else '%s:%s' % (cell(A, r1), cell(B, r2))
        return t.lower() if st == 'a1' else t
    if st in ('R1C1', 'r1c1'):
        t = 'R%dC%d' % (r1, c1) if single else 'R%dC%d:R%dC%d' % (r1, c1, r2, c2)
        return t.lower() if st == 'r1c1' else t
    if st == 'RED':
        return '%s%d:%s%d' % (A, r1, A, r1)
    if st == 'REL':
        def off(v):
            return '[%d]' % v
        a = 'R%sC%s' % (off(r1 - sp['hr']), off(c1 - sp['hc']))
        if single:
            return a
        return '%s:R%sC%s' % (a, off(r2 - sp['hr']), off(c2 - sp['hc']))
    if st == 'ROW':
        return '%d:%d' % (r1, r2)
    if st == '$ROW':
        return '$%d:$%d' % (r1, r2)
    if st == 'ROWFULL':
        return 'A%d:XFD%d' % (r1, r2)
    if st == 'COL':
        return '%s:%s' % (A, B)
    if st == '$COL':
        return '$%s:$%s' % (A, B)
    if st == 'COLFULL':
        return '%s1:%s1048576' % (A, B)
    return None


def render(sp):
    """Formula text of the spelling, or None when the combination cannot be written."""
    ref = ref_text(sp)
    if ref is None:
        return None
    ss, bs, sh, bk = sp['ss'], sp['bs'], sp['sh'], sp['bk']
    sheet = SHEETS[sh]
    low = ss in ('lower', 'quotedlower')
    sname = (sheet.lower() if low else sheet).replace("'", "''")   # doubled inside quotes
    if ("'" in sheet or sheet == 'TRUE') and ss in ('plain', 'lower'):
        return None             # such a title cannot be written without quotes
    if ss == 'none':
        return ref
    if bs == 'none':
        if ss in ('plain', 'lower'):
            if ' ' in sheet:
                return None
            return '%s!%s' % (sname, ref)
        return "'%s'!%s" % (sname, ref)
    if bs in ('file', 'dirfile'):
        if ss in ('plain', 'lower') and ' ' in sheet:
            return None
        return "'%s[%s]%s'!%s" % ('D/' if bs == 'dirfile' else '', BOOKS[bk], sname, ref)
    if bs == 'id':
        if ss in ('plain', 'lower'):
            if ' ' in sheet:
                return None
            return '[1]%s!%s' % (sname, ref)
        return "'[1]%s'!%s" % (sname, ref)
    return None


def ctx_of(sp):
    return {'sheet': 'SHEET1', 'filename': 'BOOK.XLSX', 'directory': '', 'excel': 'BOOK.XLSX',
            'external_links': {'1': ('', 'OTHER.XLSX')}, 'cr': str(sp['hr']), 'cc': sp['hc']}


def resolve(text, ctx):
    """identifier by the three routes: (token, ranges, compiled) or error names."""
    f = impl.F()
    from formulas.tokens.operand import Range
    from formulas.ranges import Ranges
    out = []
    for route in ('token', 'ranges', 'compiled'):
        try:
            if route == 'token':
                t = Range(text, ctx)
                out.append(t.attr['name'] if t.end_match == len(text) else 'PARTIAL:%s' % t.attr['name'])
            elif route == 'ranges':
                out.append(Ranges().push(text, context=ctx).ranges[0]['name'])
            else:
                b = f.Parser().ast('=' + text, context=ctx)[1]
                func = b.compile(context=ctx)
                out.append('|'.join(sorted(func.inputs)))
        except BaseException as ex:  # noqa
            if isinstance(ex, (KeyboardInterrupt, SystemExit)):
                raise
            out.append('EXC:' + type(ex).__name__)
    return out


def _shard(items):
    impl.F()
    from formulas.ranges import Ranges
    res = []
    for o in items:
        sp = o['sp']
        text = render(sp)
        if text is None:
            continue
        ids = resolve(text, ctx_of(sp))
        back = None
        if not ids[1].startswith('EXC'):
            try:
                back = Ranges().push(ids[1]).ranges[0]['name']
                # ... and as formula text (what an export writes): the parser reads it as the
                # same single reference
                b2 = impl.F().Parser().ast('=' + ids[1])[1].compile()
                names = sorted(b2.inputs)
                if names != [ids[1]]:
                    back = 'PARSED-AS:' + '|'.join(names)
            except BaseException as ex:  # noqa
                if isinstance(ex, (KeyboardInterrupt, SystemExit)):
                    raise
                back = 'EXC:' + type(ex).__name__
        res.append((tuple(o['den']), sp['style'], text, ids, back))
    return res


def _cols(items):
    impl.F()
    from formulas.tokens.operand import _index2col, _col2index
    bad = []
    for o in items:
        s = ''.join(chr(64 + x) for x in o['letters'])
        if _index2col(o['n']) != s:
            bad.append(('index2col', o['n'], s, _index2col(o['n'])))
        if _col2index(s) != o['n'] or _col2index(s.lower()) != o['n']:
            bad.append(('col2index', s, o['n'], _col2index(s)))
    return bad


CANON_WHOLE = ('ROW', '$ROW', 'COL', '$COL')


def finding_cat(den, style, text, problem):
    """Signatures of the deviations of the pinned tree (see known_findings)."""
    bk, sh, c1, r1, c2, r2 = den
    if "'[1]" in text:
        return 'quoted-numeric-workbook-id'
    if style == 'REL' and '!' in text:
        return 'sheet-qualified-relative-reference'
    if (c2 == 16384 or r2 == 1048576) and style not in CANON_WHOLE:
        return 'rectangle-touching-the-last-row-or-column'
    return None


def link_table_cases():
    """[n] is resolved through the link table of the host: the same written reference under
    another table is another workbook (Refs: Denote depends on the table, not on what was
    resolved before)."""
    out = []
    base = ctx_of({'hr': 2, 'hc': 2})
    tables = [{'1': ('', 'OTHER.XLSX')}, {'1': ('', '2020 DATA.XLSX')}, {'1': ('', 'OTHER.XLSX'), '2': ('', 'THIRD.XLSX')},
              {'2': ('', 'OTHER.XLSX'), '1': ('', 'THIRD.XLSX')}, {'1': ('D/', 'OTHER.XLSX')}]
    for written in ('[1]SHEET1!B2', "'[1]DATA 2'!$A$1:B3", '[2]SHEET1!C3', '[1]S.3!A:A'):
        for tb in tables:
            n = written[1]
            if n not in tb:
                continue
            d_, f_ = tb[n]
            explicit = written.replace("'[%s]" % n, "'%s[%s]" % (d_, f_)) if written.startswith("'") else \
                "'%s[%s]%s" % (d_, f_, written[3:].replace('!', "'!", 1))
            ids = []
            for text in (written, explicit):
                c = dict(base)
                c['external_links'] = dict(tb)
                ids.append(resolve(text, c))
            out.append((written, tb, explicit, ids[0], ids[1]))
    return out


def main():
    rep = Report(PID)
    thorough = tier() == 'thorough'
    for written, tb, explicit, got, want in link_table_cases():
        rep.count()
        rep.distinct(('lt', written, json.dumps(tb, sort_keys=True)))
        # (the quoted numeric id is a recorded finding of its own: only unquoted ones here)
        if written.startswith("'"):
            continue
        if got != want:
            rep.violation({'kind': 'link-table', 'text': written, 'table': json.dumps(tb, sort_keys=True)},
                          {'written': written, 'link_table': tb, 'explicit_spelling': explicit,
                           'identifiers_of_written': got, 'identifiers_of_explicit': want,
                           'how': 'the same host context with another external_links table, in one process'})
    r = run_tlc('Refs', 'Refs.cfg', timeout=1500, heap='8g')
    rep.add_tlc(r, 'Refs: all 16 384 columns (ColBijection, LastCol) and the spelling space '
                   '(RelAbs) over boundary columns / rows')
    obl = parse_obl(r['out'])
    cols = [o for o in obl if o['k'] == 'col']
    sps = [o for o in obl if o['k'] == 'sp']
    if len(cols) != 16384:
        raise MachineryError('expected 16384 columns, got %d' % len(cols))
    for part in pmap(_cols, shards(cols, NCPU), chunk=1):
        for kind, a, want, got in part:
            rep.violation({'kind': 'column-' + kind, 'at': str(a)},
                          {'input': a, 'expected': want, 'observed': got})
    rep.count(len(cols))
    rnd = random.Random(seed() * 5 + 1)
    rnd.shuffle(sps)
    if not thorough:
        sps = sps[:30000]
    res = []
    for part in pmap(_shard, shards(sps, NCPU * 4), chunk=1):
        res.extend(part)
    # partition by denotation vs partition by identifier (per route)
    by_den = collections.defaultdict(list)
    for den, style, text, ids, back in res:
        by_den[den].append((style, text, ids, back))
        rep.count()
    id_owner = [dict(), dict(), dict()]
    for den, lst in by_den.items():
        if len(lst) >= 2:
            rep.distinct(('den',) + den)
        for k in range(3):
            seen = collections.Counter(x[2][k] for x in lst)
            # exceptions and partial matches first
            for style, text, ids, back in lst:
                if ids[k].startswith('EXC') or ids[k].startswith('PARTIAL'):
                    cat = finding_cat(den, style, text, 'unresolved')
                    rep.violation({'cat': cat} if cat else
                                  {'kind': 'spelling-not-resolved', 'route': k, 'text': text},
                                  {'text': text, 'route': ['token', 'ranges', 'compiled'][k],
                                   'result': ids[k], 'denotes': den})
            good = [x for x in lst if not x[2][k].startswith(('EXC', 'PARTIAL'))]
            names = collections.Counter(x[2][k] for x in good)
            if len(names) > 1:
                canon = collections.Counter(x[2][k] for x in good if x[0] in CANON_WHOLE
                                            and "'[1]" not in x[1])
                plain = collections.Counter(x[2][k] for x in good if "'[1]" not in x[1]
                                            and not (x[0] == 'REL' and '!' in x[1]))
                major = (canon or plain or names).most_common(1)[0][0]
                for style, text, ids, back in good:
                    if ids[k] != major:
                        cat = finding_cat(den, style, text, 'split')
                        rep.violation({'cat': cat} if cat else
                                      {'kind': 'same-rectangle-two-identifiers', 'route': k,
                                       'text': text, 'got': ids[k]},
                                      {'text': text, 'identifier': ids[k], 'others_get': major,
                                       'route': ['token', 'ranges', 'compiled'][k], 'denotes': den})
            for n in names:
                styles_n = [x[0] for x in good if x[2][k] == n]
                texts_n = [x[1] for x in good if x[2][k] == n]
                if n in id_owner[k] and id_owner[k][n][0] != den:
                    oden, ostyles = id_owner[k][n]
                    cat = None
                    for d_, sts in ((den, styles_n), (oden, ostyles)):
                        if d_[4] == 16384 or d_[5] == 1048576:
                            cat = 'rectangle-touching-the-last-row-or-column'
                    if any("'[1]" in t for t in texts_n):
                        cat = 'quoted-numeric-workbook-id'
                    rep.violation({'cat': cat} if cat else
                                  {'kind': 'two-rectangles-one-identifier', 'route': k, 'id': n},
                                  {'identifier': n, 'denotes': [den, id_owner[k][n][0]],
                                   'route': ['token', 'ranges', 'compiled'][k]})
                id_owner[k].setdefault(n, (den, styles_n))
        for style, text, ids, back in lst:
            ok3 = ids[0] == ids[1] == ids[2]
            if not ok3 and not any(i.startswith(('EXC', 'PARTIAL')) for i in ids):
                cat = finding_cat(den, style, text, 'routes')
                rep.violation({'cat': cat} if cat else
                              {'kind': 'routes-disagree', 'text': text},
                              {'text': text, 'token/ranges/compiled': ids, 'denotes': den})
            if back is not None and not ids[1].startswith('EXC') and back != ids[1]:
                cat = finding_cat(den, style, text, 'readback')
                if den[4] == 16384 or den[5] == 1048576:
                    cat = cat or 'rectangle-touching-the-last-row-or-column'
                rep.violation({'cat': cat} if cat else
                              {'kind': 'identifier-does-not-read-back', 'id': ids[1]},
                              {'text': text, 'identifier': ids[1], 'reads_back_as': back})
    rep.traces(len(res))
    for den, style, text, ids, back in res[:4]:
        rep.sample({'spelling': text, 'denotes': den, 'identifier': ids[1]})
    rep.cov['rule'] = ('rectangles over boundary columns {1,2,27,16383,16384} x rows '
                       '{1,3,1048575,1048576} x 13 styles x sheet part x workbook part x 2 hosts '
                       '(quick: 30 000 sampled spellings), all 16 384 column indices; distinct '
                       'non-trivial = denotation classes with >= 2 spellings')
    rep.cov['exhaustive'] = thorough
    return rep.finish()


if __name__ == '__main__':
    main_wrapper(main)
