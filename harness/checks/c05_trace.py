"""C05, direction code -> spec: the lifting law checked on the code's own scalar
results for element-wise functions whose scalar meaning the spec does not define."""
import os
import json
import random
import shutil
from ..common import seed, tier, pmap, shards, MachineryError, NCPU, workdir
from ..tlc import run_tlc
from .. import values as V
from .. import impl
from .c02_trace import obs_abstract
from . import c05

UNARY = ['ABS', 'INT', 'SIGN', 'LEN', 'UPPER', 'ISNUMBER', 'ISTEXT', 'NOT', 'EVEN', 'TRIM']
BINARY = ['ROUND', 'MOD', 'LEFT', 'POWER', 'ROUNDUP', 'RIGHT', 'EXACT', 'ATAN2', 'FLOOR', 'REPT']
ELEMS = [V.N(0), V.N(1), V.N(2), V.N(-3), V.N(5, 2), V.T('ab'), V.T('Xy z'), V.T(''),
         V.B(True), V.B(False), V.E('DIV0'), V.E('NA'), V.E('VALUE'), V.N(7)]
SHAPES = [(1, 1), (1, 2), (1, 3), (2, 1), (3, 1), (2, 2), (2, 3), (3, 2)]


def rnd_arr(rnd, shp):
    e = lambda: dict(rnd.choice(ELEMS), **({'e': 0} if False else {}))
    if shp == (1, 1):
        return norm(e())
    return {'k': 'a', 'rows': [[norm(e()) for _ in range(shp[1])] for _ in range(shp[0])]}


def norm(v):
    if v['k'] == 'n':
        return {'k': 'n', 'n': v['n'], 'd': v['d'], 'e': 0}
    return dict(v)


NA = {'k': 'e', 'e': 'NA'}


def elem(v, idx):
    if idx == (0, 0):
        return NA
    if v['k'] != 'a':
        return v
    return v['rows'][idx[0] - 1][idx[1] - 1]


def indices(v):
    if v['k'] != 'a':
        return [(1, 1), (0, 0)] if False else [(1, 1)]
    return [(i + 1, j + 1) for i in range(len(v['rows'])) for j in range(len(v['rows'][0]))] + [(0, 0)]


def call(fn, args):
    f = '=%s(%s)' % (fn, ','.join(c05.lit(a) for a in args))
    shp = (3, 3)
    return f


def _run(cases):
    impl.F()
    out = []
    for fn, a, b in cases:
        unary = b is None
        args = [a] if unary else [a, b]
        ra, ca = c05.shape(a)
        rb, cb = (1, 1) if unary else c05.shape(b)
        oshape = (max(ra, rb), max(ca, cb))
        f = '=%s(%s)' % (fn, ','.join(c05.lit(x) for x in args))
        st, val = impl.observe(c05.eval_range, oshape, f)
        res = {'k': 'raise', 'repr': val} if st == 'raise' else abstract_any(val)
        scal = {}
        for ia in indices(a):
            for ib in ([(1, 1)] if unary else indices(b)):
                sa = [elem(a, ia)] if unary else [elem(a, ia), elem(b, ib)]
                fs = '=%s(%s)' % (fn, ','.join(V.lit(x) for x in sa))
                st2, v2 = impl.observe(impl.cell_eval, 'A20', fs)
                key = '%d,%d,%d,%d' % (ia + ib)
                scal[key] = {'k': 'raise'} if st2 == 'raise' else obs_abstract(v2)
        out.append({'fn': fn, 'a': a, 'b': b if not unary else dict(V.Z),
                    'res': res, 'scal': scal, 'formula': f})
    return out


def abstract_any(val):
    if hasattr(val, 'ranges'):
        val = val.value
    a = V.alpha(val)
    if a.get('k') == 'a':
        import numpy as np
        arr = np.asarray(val, object)
        if arr.ndim == 1:
            arr = arr[None, :]
        return {'k': 'a', 'rows': [[obs_abstract(x) for x in row] for row in arr]}
    return obs_abstract(val)


def _validate(path):
    return run_tlc('XlArrayTrace', 'XlArrayTrace.cfg', env={'TRACE_FILE': path},
                   workers=1, allow_error=True, heap='3g')


def run(rep):
    n = 1500 if tier() == 'quick' else 30000
    rnd = random.Random(seed() * 17 + 9)
    cases = []
    for _ in range(n):
        if rnd.random() < 0.4:
            cases.append((rnd.choice(UNARY), rnd_arr(rnd, rnd.choice(SHAPES)), None))
        else:
            cases.append((rnd.choice(BINARY), rnd_arr(rnd, rnd.choice(SHAPES)),
                          rnd_arr(rnd, rnd.choice(SHAPES))))
    evs = []
    for part in pmap(_run, shards(cases, NCPU * 4), chunk=1):
        evs.extend(part)
    wd = workdir('c05t')
    try:
        files = []
        for k, part in enumerate(shards(evs, NCPU)):
            p = os.path.join(wd, 't%d.json' % k)
            json.dump([{kk: v for kk, v in e.items() if kk != 'formula'} for e in part], open(p, 'w'))
            files.append((p, part))
        results = pmap(_validate, [p for p, _ in files], procs=NCPU, chunk=1)
        ok = 0
        for (p, part), r in zip(files, results):
            if not r['ok']:
                raise MachineryError('XlArrayTrace failed:\n%s' % (r['error'] or r['out'][-1500:]))
            rep.add_tlc(r, 'XlArrayTrace: %d events' % len(part))
            rej = set()
            for line in r['out'].splitlines():
                line = line.strip()
                if line.startswith('<<"REJECT"'):
                    rej.add(int(line.split(',')[1].strip(' >')))
            for i, ev in enumerate(part, 1):
                rep.count()
                if i in rej:
                    o = {'kind': '+', 'x': ev['a'], 'y': ev['b'], 'dst': [0, 0]}
                    cat = c05.categorize(o, ev['res'])
                    sig = {'cat': cat, 'route': 'trace'} if cat else \
                        {'kind': 'lift-law', 'fn': ev['fn'], 'a': V.show(ev['a']),
                         'b': V.show(ev['b'])}
                    rep.violation(sig, {'formula': ev['formula'], 'result': ev['res'],
                                        'scalar_results': ev['scal'],
                                        'how': 'Cell over a range; rejected by XlArrayTrace.tla'})
                else:
                    ok += 1
                    rep.distinct(('t', ev['formula']))
        rep.traces(ok)
        rep.sample({'trace_formula': evs[0]['formula']})
    finally:
        shutil.rmtree(wd, ignore_errors=True)
