"""C17 - copies and serialised models are equivalent and independent.

Lifecycle.tla with two objects (the model and its copy): TLC checks Independent
/ HistoryFree exhaustively for short histories and samples interleavings of
length <= 6 (calculate with overrides on either object, compile, compiled call,
copy of a compiled function, to_dict, write, deep copy, dill round trip).  Each
interleaving is replayed on real objects; after every step every live object
is observed with a fixed override set and must equal Sem(W, ov) - so a copy is
equivalent to its original and nothing done to one shows in the other.
"""
import os
import json
import random
import shutil
import subprocess
from ..common import (Report, main_wrapper, seed, tier, shards, MachineryError,
                      NCPU, workdir, PY, VERIF, REPO, pmap)
from ..tlc import run_tlc, parse_obl
from .. import values as V
from .. import wbgen as G
from .. import lifecycle as L
from .. import impl
from .. import wbrun as R
from . import c03, c07

PID = 'C17'
GEN_KW = {'n_cells': 9, 'features': ['names', 'array', 'array-literal']}


def histories(rep, n, sd):
    src = open('/verif/spec/Lifecycle.cfg').read().replace('Objects = {"m"}', 'Objects = {"m", "copy"}')
    tmp = 'Lifecycle2_run%d.cfg' % os.getpid()
    open(os.path.join('/verif/spec', tmp), 'w').write(src)
    try:
        r = run_tlc('Lifecycle', tmp, timeout=900)
    finally:
        os.remove(os.path.join('/verif/spec', tmp))
    rep.add_tlc(r, 'Lifecycle (model + copy): all interleavings up to length 3; '
                   'HistoryFree Independent NoStaleRead')
    src = open('/verif/spec/LifecycleSim.cfg').read().replace('MaxLen = 8', 'MaxLen = 6').replace(
        'Objects = {"m"}', 'Objects = {"m", "copy"}')
    tmp = 'LifecycleSim2_run%d.cfg' % os.getpid()
    open(os.path.join('/verif/spec', tmp), 'w').write(src)
    try:
        r2 = run_tlc('Lifecycle', tmp, simulate='num=%d' % (n * 6), depth=7, seed=sd, workers=1,
                     timeout=900)
    finally:
        os.remove(os.path.join('/verif/spec', tmp))
    hs = parse_obl(r2['out'])
    out = []
    for h in hs:
        h = [op for op in h if op['k'] != 'refinish']
        ks = [op['k'] for op in h]
        if ('copy' in ks or 'dill' in ks) and any(op.get('o') == 'copy' for op in h):
            out.append(h)
    if len(out) < n // 3:
        raise MachineryError('only %d interleavings with a copy were sampled' % len(out))
    return out


def _copy_equiv(s):
    """Equivalence observed directly, no expected values involved: a model, its deep copy
    and its dill round trip are calculated with the same supplied inputs (cells,
    unpopulated members of ranges, whole sparse ranges) and must show the same solution
    cell by cell - blank members of the supplied ranges included."""
    import copy
    import dill
    from .. import hdjob
    f = impl.F()
    g = G.make(s, **c03.GEN_KW)
    rnd = random.Random(s * 131 + 7)
    out = {'seed': s, 'n': 0, 'problems': [], 'workbook': c03.describe(g)}
    try:
        m = R.build_dict(g)
        copies = {'deepcopy': copy.deepcopy(m), 'dill': dill.loads(dill.dumps(m))}
        for _ in range(3):
            inp, ids = hdjob.make_inputs(g, rnd, L, G, V)
            try:
                ref_sol = m.calculate(inputs=inp) if inp else m.calculate()
            except BaseException as ex:  # noqa
                if isinstance(ex, (KeyboardInterrupt, SystemExit)):
                    raise
                continue
            cells = sorted(set(g.cells) | set(ids))
            ref = {i: R.node_value(ref_sol, g, i) for i in cells}
            for name, c in copies.items():
                sol = c.calculate(inputs=inp) if inp else c.calculate()
                for i in cells:
                    out['n'] += 1
                    a, b = ref[i], R.node_value(sol, g, i)
                    if (a is None) != (b is None) or (a is not None and V.show(a) != V.show(b)):
                        out['problems'].append({'copy': name, 'cell': i, 'inputs': sorted(inp),
                                                'original': V.show(a) if a else None,
                                                'copy_shows': V.show(b) if b else None})
    except BaseException as ex:  # noqa
        if isinstance(ex, (KeyboardInterrupt, SystemExit)):
            raise
        out['problems'].append({'copy': 'raises', 'exc': '%s: %s' % (type(ex).__name__, str(ex)[:200])})
    return out


def _cyclic_copy(s):
    """A cyclic workbook, its deep copy and its dill round trip calculated side by side."""
    import copy
    import dill
    f = impl.F()
    g = G.make_cyclic(s)
    out = {'seed': s, 'n': 0, 'problems': [], 'workbook': c03.describe(g)}
    try:
        m = R.build_dict(g)
        impl.with_timeout(lambda: m.finish(complete=False, circular=True), 30)
        ref = R.observe_all(impl.with_timeout(m.calculate, 30), g)
        copies = {'deepcopy': copy.deepcopy(m), 'dill': dill.loads(dill.dumps(m))}
        for name, c in copies.items():
            obs = R.observe_all(impl.with_timeout(c.calculate, 30), g)
            for i, v in ref.items():
                out['n'] += 1
                w = obs.get(i)
                if w is None or V.show(w) != V.show(v):
                    out['problems'].append({'copy': name, 'cell': i, 'original': V.show(v),
                                            'copy_shows': V.show(w) if w else None})
        # ... and again on the original afterwards (independence)
        again = R.observe_all(impl.with_timeout(m.calculate, 30), g)
        for i, v in ref.items():
            if again.get(i) is None or V.show(again[i]) != V.show(v):
                out['problems'].append({'copy': 'original-after-copies', 'cell': i, 'original': V.show(v),
                                        'copy_shows': V.show(again[i]) if again.get(i) else None})
    except BaseException as ex:  # noqa
        if isinstance(ex, (KeyboardInterrupt, SystemExit)):
            raise
        out['problems'].append({'copy': 'raises', 'exc': '%s: %s' % (type(ex).__name__, str(ex)[:200])})
    return out


def main():
    rep = Report(PID)
    thorough = tier() == 'thorough'
    n = 150 if not thorough else 1000
    base = seed() * 100000 + 17000
    seeds = [base + i for i in range(n)]
    wd = workdir('c17')
    try:
        gens, ovs, cases = {}, {}, []
        for s in seeds:
            g = G.make(s, **GEN_KW)
            gens[s] = g
            ovsets = L.make_ovsets(g, random.Random(s * 31 + 5), c07.NOV)
            ovs[s] = ovsets
            cases.append(G.tla_case(g))
            for o in ovsets:
                cases.append(G.tla_case(g, L.ov_json(o)))
        sem, cf = c03.tlc_sem(rep, wd, cases, '%d (workbook, override set) cases' % len(cases))
        semf = os.path.join(wd, 'sem.json')
        hists = histories(rep, n, seed() + 23)
        items = []
        for k, s in enumerate(seeds):
            h = hists[k % len(hists)]
            # add a copy-of-compiled-function step to half of them
            if k % 2 == 0:
                h = h + [{'k': 'fcopy', 'j': 1 + k % 3, 'o': 'm'}]
            # the probe uses a hazard-free override set (or none)
            pj = 0
            for j in (1, 2, 3):
                if not L.range_override_hazard(gens[s], ovs[s][j - 1]):
                    pj = j
                    break
            items.append({'seed': s, 'idx': k, 'path': 'dict' if k % 2 else 'file', 'hist': h,
                          'observe': ['fcopy'], 'probe_j': pj})
        recs = c07.run_lcjobs(wd, GEN_KW, semf, items)
        for r in recs:
            g = gens[r['seed']]
            rep.count(max(1, r['observations']))
            rep.distinct(('h', r['seed'], json.dumps(r['hist'])))
            if r['exc']:
                rep.violation({'kind': 'raises', 'seed': r['seed'], 'exc': r['exc'].split(':')[0]},
                              {'workbook_seed': r['seed'], 'history': r['hist'], 'exc': r['exc'],
                               'workbook': c03.describe(g)})
            for p in r['problems']:
                rep.violation({'kind': p['kind'], 'seed': r['seed'], 'cell': p.get('cell'),
                               'op': json.dumps(p['op']), 'got': p.get('observed') or p.get('exc')},
                              {'workbook_seed': r['seed'], 'path': r['path'], 'history': r['hist'],
                               'problem': p, 'override_sets': [
                                   {k: V.show(v) for k, v in o['ov'].items()} for o in ovs[r['seed']]],
                               'workbook': c03.describe(g),
                               'how': 'interleaving applied to the model and its copy (deepcopy / '
                                      'dill); after each step every live object recalculated with '
                                      'the probe inputs and compared with Sem(W, ov)'})
        rep.traces(len(recs))
        rep.sample({'interleaving': recs[0]['hist'], 'workbook': c03.describe(gens[recs[0]['seed']])})
        # Independent / HistoryFree against isolated references (harness/cpjob.py): models
        # over a broad function vocabulary, a copy (deepcopy / dill / JSON), interleaved
        # calculations with ==-equal inputs of different types; every result must equal the
        # one computed in a process that evaluated nothing else
        ncp = 320 if not thorough else 3000
        cbase = seed() * 100000 + 17500
        jf, of = os.path.join(wd, 'cp.json'), os.path.join(wd, 'cpo.json')
        json.dump({'items': [{'seed': cbase + i, 'copy': ['deepcopy', 'dill', 'json'][i % 3]}
                             for i in range(ncp)], 'procs': NCPU}, open(jf, 'w'))
        env = dict(os.environ)
        env['VERIF_REPO'] = REPO
        p = subprocess.run([PY, '-m', 'harness.cpjob', jf, of], cwd=VERIF, env=env,
                           stdout=subprocess.PIPE, stderr=subprocess.STDOUT, timeout=3000)
        if p.returncode != 0 or not os.path.exists(of):
            raise MachineryError('cpjob failed:\n' + p.stdout.decode()[-2000:])
        for r in json.load(open(of)):
            rep.count(max(1, r['n']))
            rep.distinct(('cp', r['seed']))
            if r.get('exc'):
                rep.violation({'kind': 'copy-history-raises', 'seed': r['seed'], 'exc': r['exc'].split(':')[0]},
                              {'model': r['model'], 'copy': r['copy'], 'exc': r['exc']})
                continue
            for pr in r['problems'][:2]:
                rep.violation({'kind': 'shared-state', 'seed': r['seed'], 'cell': pr.get('cell'),
                               'copy': r['copy']},
                              {'model': r['model'], 'copy_made_by': r['copy'], 'problem': pr,
                               'how': 'calculations interleaved on a model and its copy; each result '
                                      'against the same (model, inputs) in a process of its own'})
        rep.cov['copy_histories_against_isolated_references'] = ncp
        # circular models: the copy of a model finished with circular=True shows, cell by
        # cell, what the original shows (the #CIRC! marks included)
        ncy = 60 if not thorough else 400
        cyres = pmap(_cyclic_copy, [seed() * 100000 + 17800 + i for i in range(ncy)], chunk=4)
        for r in cyres:
            rep.count(max(1, r['n']))
            rep.distinct(('cy', r['seed']))
            for pr in r['problems'][:2]:
                rep.violation({'kind': 'circular-copy', 'seed': r['seed'], 'cell': pr.get('cell'),
                               'copy': pr.get('copy')},
                              {'workbook_seed': r['seed'], 'problem': pr, 'workbook': r['workbook'],
                               'how': 'from_dict(...).finish(complete=False, circular=True); deepcopy and '
                                      'dill round trip (model and a compiled function); calculate() on each'})
        rep.cov['circular_models_copied'] = ncy
        neq = 200 if not thorough else 1500
        for r in pmap(_copy_equiv, [seed() * 100000 + 17900 + i for i in range(neq)], chunk=4):
            rep.count(max(1, r['n']))
            rep.distinct(('ce', r['seed']))
            for pr in r['problems'][:2]:
                rep.violation({'kind': 'copy-differs-from-original', 'seed': r['seed'], 'cell': pr.get('cell'),
                               'copy': pr.get('copy')},
                              {'workbook_seed': r['seed'], 'problem': pr, 'workbook': r['workbook'],
                               'how': 'model, deepcopy and dill round trip calculated with the same supplied '
                                      'inputs (whole sparse ranges included); solutions compared cell by cell'})
        rep.cov['models_compared_with_their_copies_directly'] = neq
        rep.cov['rule'] = ('seeded workbooks (incl. array formulas padded with #N/A) x sampled '
                           'interleavings on {model, copy} with deepcopy / dill, copies of compiled '
                           'functions; every live object observed after every step; distinct '
                           'non-trivial = distinct (workbook, interleaving)')
    finally:
        shutil.rmtree(wd, ignore_errors=True)
    return rep.finish()


if __name__ == '__main__':
    main_wrapper(main)
