"""C06 - reference operators follow cell-set semantics, values included.

spec/Rects.tla: TLC checks that the transcription of formulas/ranges.py
(_intersect, _split, __and__, __or__, __add__, __sub__, simplify/_merge)
refines the cell-set definitions for every operand combination of the bounded
grid and emits every case; each case is replayed on the real Ranges class
(areas, duplicates, values position by position) and, for a sample, through
formulas (=SUM(A1:B2 B1:C2) ...).  Direction code->spec: random multi-area
operands, recorded results validated by RectsTrace.tla.
"""
import os
import json
import random
import shutil
import collections
from ..common import (Report, main_wrapper, seed, tier, pmap, shards,
                      MachineryError, NCPU, workdir)
from ..tlc import run_tlc, parse_obl
from .. import values as V
from .. import impl

PID = 'C06'


def col(n):
    s = ''
    while n:
        n, r = divmod(n - 1, 26)
        s = chr(65 + r) + s
    return s


def name(x):
    ref = '%s%d' % (col(x['n1']), x['r1'])
    if (x['n1'], x['r1']) != (x['n2'], x['r2']):
        ref += ':%s%d' % (col(x['n2']), x['r2'])
    return ref if x['s'] == 1 else 'SHEET2!' + ref


def content(s, c, r):
    return 1000 * s + 10 * c + r


def block(x):
    return [[content(x['s'], c, r) for c in range(x['n1'], x['n2'] + 1)]
            for r in range(x['r1'], x['r2'] + 1)]


def mk(areas, with_values=True):
    impl.F()
    from formulas.ranges import Ranges
    rng = Ranges()
    for x in areas:
        if with_values:
            rng.push(name(x), block(x))
        else:
            rng.push(name(x))
    return rng


def cells_of(ranges):
    """[(sheet, col, row) ...] with multiplicity, from the library's dicts."""
    out = []
    for r in ranges:
        s = 2 if r.get('sheet_id') else 1
        for c in range(r['n1'], r['n2'] + 1):
            for rr in range(int(r['r1']), int(r['r2']) + 1):
                out.append((s, c, rr))
    return out


def apply(op, a, b):
    if op == 'and':
        return a & b
    if op == 'or':
        return a | b
    if op == 'add':
        return a + b
    if op == 'sub':
        return a - b
    if op == 'simplify':
        return a.simplify()
    raise ValueError(op)


def flat(v):
    import numpy as np
    return [x for x in np.ravel(np.asarray(v, object)).tolist()]


def check_case(o):
    """-> list of (kind, detail)"""
    impl.F()
    import numpy as np
    from formulas.errors import InvalidRangeError
    op, A, B = o['op'], o['a'], o['b']
    probs = []
    a, b = mk(A), (mk(B) if B else None)
    names_a = [r['name'] for r in a.ranges]
    names_b = [r['name'] for r in b.ranges] if b else []
    try:
        res = apply(op, a, b)
    except InvalidRangeError:
        if not o['err']:
            probs.append(('raises', 'InvalidRangeError'))
        return probs
    except BaseException as ex:  # noqa
        if isinstance(ex, (KeyboardInterrupt, SystemExit)):
            raise
        probs.append(('raises', type(ex).__name__))
        return probs
    if o['err']:
        probs.append(('no-error', 'operands on different sheets joined by :'))
        return probs
    # the operator leaves its operands as they were: same areas, same values (read only
    # now - after the operation - so that nothing was cached before it)
    for label, rg, ar, nb in (('left', a, A, names_a), ('right', b, B, names_b)):
        if rg is None or not ar or rg is res:
            continue
        try:
            if [r['name'] for r in rg.ranges] != nb:
                probs.append(('operand-changed', {'operand': label, 'areas_before': nb,
                                                  'areas_after': [r['name'] for r in rg.ranges]}))
            elif len(ar) == 1:
                have_ = np.asarray(rg.value, object).tolist()
                if have_ != block(ar[0]):
                    probs.append(('operand-changed', {'operand': label, 'area': nb[0],
                                                      'value_before': repr(block(ar[0]))[:300],
                                                      'value_after': repr(have_)[:300]}))
            else:
                want_ = sorted(content(*c) for c in cells_of(rg.ranges))
                if sorted(map(repr, flat(rg.value))) != sorted(map(repr, want_)):
                    probs.append(('operand-changed', {'operand': label, 'areas': nb,
                                                      'values_before': repr(want_)[:300],
                                                      'values_after': repr(flat(rg.value))[:300]}))
        except BaseException as ex:  # noqa
            if isinstance(ex, (KeyboardInterrupt, SystemExit)):
                raise
            probs.append(('operand-changed', {'operand': label, 'reading_it_raises': type(ex).__name__}))
    if probs:
        return probs
    got = cells_of(res.ranges)
    exp = set((c[0], c[1], c[2]) for c in o['cells'])
    if set(got) != exp:
        probs.append(('cells', {'expected': sorted(exp), 'observed': sorted(got)}))
        return probs
    dup = [k for k, n in collections.Counter(got).items() if n > 1]
    if op in ('sub', 'simplify') and dup:
        probs.append(('duplicates', {'cells': sorted(dup)}))
    if op == 'and' and len(A) == 1 and len(B) == 1 and len(res.ranges) > 1:
        probs.append(('duplicates', {'areas': len(res.ranges)}))
    if op == 'and':
        # each cell once per pair of covering areas (Rects!InterMultiplicity)
        want_n = {(m[0], m[1], m[2]): m[3] for m in o.get('mult', [])}
        have_n = collections.Counter(got)
        bad = sorted(k for k in want_n if have_n.get(k) != want_n[k])
        if bad:
            probs.append(('multiplicity', {'cells': bad[:6],
                                           'expected': [want_n[k] for k in bad[:6]],
                                           'observed': [have_n.get(k) for k in bad[:6]]}))
            return probs
    if op in ('or', 'add'):
        want = [(x['s'], x['n1'], x['r1'], x['n2'], x['r2']) for x in o['areas']]
        have = [(2 if r.get('sheet_id') else 1, r['n1'], int(r['r1']), r['n2'],
                 int(r['r2'])) for r in res.ranges]
        if want != have:
            probs.append(('areas', {'expected': want, 'observed': have}))
            return probs
    # values: exactly the values of those cells
    try:
        val = res.value
    except BaseException as ex:  # noqa
        if isinstance(ex, (KeyboardInterrupt, SystemExit)):
            raise
        probs.append(('value-raises', type(ex).__name__))
        return probs
    if op in ('sub', 'simplify'):
        return probs      # the property speaks of values for the reference operators only
    if not got:
        a0 = V.alpha(val)
        if a0 != V.E('NULL'):
            probs.append(('empty-not-null', V.show(a0)))
        return probs
    if len(res.ranges) == 1:
        r = res.ranges[0]
        s = 2 if r.get('sheet_id') else 1
        want = [[content(s, c, rr) for c in range(r['n1'], r['n2'] + 1)]
                for rr in range(int(r['r1']), int(r['r2']) + 1)]
        have = np.asarray(val, object)
        covered = set(cells_of([x for x in a.ranges] + ([x for x in b.ranges] if b else [])))
        ok = have.shape == (len(want), len(want[0]))
        if ok:
            for i, row in enumerate(want):
                for j, w in enumerate(row):
                    cell = (s, r['n1'] + j, int(r['r1']) + i)
                    if op == 'add' and cell not in covered:
                        continue          # the operands carry no value for it
                    if have[i, j] != w:
                        ok = False
        if not ok:
            probs.append(('value', {'expected': want, 'observed': have.tolist()}))
    else:
        want = sorted(content(*c) for c in got)
        have = sorted(flat(val))
        if want != have:
            probs.append(('value-multiset', {'expected': want, 'observed': have}))
    return probs


def cells_row_major(ranges):
    out = []
    for r in ranges:
        s = 2 if r.get('sheet_id') else 1
        for rr in range(int(r['r1']), int(r['r2']) + 1):
            for c in range(r['n1'], r['n2'] + 1):
                out.append((s, c, rr))
    return out


def formula_case(o):
    """The same case spelled as a formula evaluated through Cell."""
    op, A, B = o['op'], o['a'], o['b']
    if op not in ('and', 'or', 'add') or o['err']:
        return []
    if any(x['s'] != 1 for x in A + B):
        return []
    la = ','.join(name(x) for x in A)
    lb = ','.join(name(x) for x in B)
    if len(A) > 1:
        la = '(%s)' % la
    if len(B) > 1:
        lb = '(%s)' % lb
    if op == 'and':
        ref = '%s %s' % (la, lb)
    elif op == 'or':
        ref = '(%s,%s)' % (la, lb)
    else:
        if len(A) > 1 or len(B) > 1:
            return []
        a0, b0 = A[0], B[0]
        single_a = (a0['n1'], a0['r1']) == (a0['n2'], a0['r2'])
        if single_a and not (a0['n1'] <= b0['n1'] and a0['r1'] <= b0['r1'] and
                             (b0['n1'], b0['r1']) == (b0['n2'], b0['r2'])):
            return []   # "A3:A1:C2" would be lexed as the reversed range A3:A1
        ref = '%s:%s' % (la, lb)
    cells = [(c[0], c[1], c[2]) for c in o['cells']]
    if op == 'and':
        if len(A) > 1 or len(B) > 1:
            return []
        bag = cells
    elif op == 'or':
        bag = []
        for x in o['areas']:
            bag += [(x['s'], c, r) for c in range(x['n1'], x['n2'] + 1)
                    for r in range(x['r1'], x['r2'] + 1)]
    else:
        bag = cells          # =SUM(A:B): every cell of the bounding rectangle
    formula = '=SUM(%s)' % ref
    st, val = impl.observe(_eval_with_content, formula)
    if st == 'raise':
        return [('formula-raises', {'formula': formula, 'exc': val})]
    got = V.alpha(val)
    if not bag:
        if op == 'and' and got != V.E('NULL'):
            return [('formula-empty-not-null', {'formula': formula,
                                                'observed': V.show(got)})]
        return []
    want = float(sum(content(*c) for c in bag))
    if got.get('k') != 'f' or not V.close(got['x'], want):
        return [('formula-sum', {'formula': formula, 'expected': want,
                                 'observed': V.show(got)})]
    return []


_fcache = {}


def _eval_with_content(formula):
    """Evaluate the formula as cell Z99 with every range the compiled cell
    asks for filled with the coordinate content."""
    impl.F()
    import schedula as sh
    from formulas.cell import Cell
    from formulas.ranges import Ranges
    dsp = sh.Dispatcher()
    cell = Cell('Z99', formula).compile()
    cell.add(dsp)
    inputs = {}
    for k in cell.inputs:
        r = Ranges.get_range(k)
        x = {'s': 1, 'n1': r['n1'], 'r1': int(r['r1']), 'n2': r['n2'], 'r2': int(r['r2'])}
        inputs[k] = block(x)
    return dsp(inputs)[cell.output]


def _shard(args):
    obls, do_formula = args
    impl.F()
    out = []
    for i, o in enumerate(obls):
        probs = check_case(o)
        n = 1
        if do_formula and i % 7 == 0:
            probs += formula_case(o)
            n += 1
        # details may hold the library's own objects (error tokens, arrays): plain data only
        probs = json.loads(json.dumps([list(p_) for p_ in probs], default=repr))
        out.append((o, n, [tuple(p_) for p_ in probs]))
    return out


def sig_of(o, kind):
    return {'kind': kind, 'op': o['op'],
            'a': ','.join(name(x) for x in o['a']),
            'b': ','.join(name(x) for x in o['b'])}


def main():
    rep = Report(PID)
    thorough = tier() == 'thorough'
    cfg = 'Rects.cfg'
    src = open('/verif/spec/Rects.cfg').read().replace('EmitObl = FALSE', 'EmitObl = TRUE')
    if thorough:
        src = src.replace('N = 4', 'N = 5')
    tmp = 'Rects_run%d.cfg' % os.getpid()
    with open(os.path.join('/verif/spec', tmp), 'w') as f:
        f.write(src)
    try:
        r = run_tlc('Rects', tmp, timeout=3000, heap='8g')
    finally:
        os.remove(os.path.join('/verif/spec', tmp))
    rep.add_tlc(r, 'Rects: all operand combinations; InterExact InterSingleNoDup '
                   'UnionExact BoundExact BoundContains SubExact SimplifyExact '
                   'SplitPartition InterComm')
    obl = parse_obl(r['out'])
    if len(obl) * 2 != r['distinct']:
        raise MachineryError('Rects: %d obligations for %d states' % (len(obl), r['distinct']))
    rnd = random.Random(seed() * 13 + 1)
    rnd.shuffle(obl)
    if not thorough:
        # quick: every binary single-rectangle case, a seeded sample of the rest
        single = [o for o in obl if len(o['a']) == 1 and len(o['b']) == 1]
        multi = [o for o in obl if not (len(o['a']) == 1 and len(o['b']) == 1)]
        obl = single + multi[:60000]
    results = []
    for part in pmap(_shard, [(p, True) for p in shards(obl, NCPU * 4)], chunk=1):
        results.extend(part)
    for o, n, probs in results:
        rep.count(n)
        if len(o['cells']) >= 2:
            rep.distinct((o['op'], json.dumps(o['a']), json.dumps(o['b'])))
        for kind, detail in probs:
            rep.violation(sig_of(o, kind), {
                'op': o['op'], 'a': [name(x) for x in o['a']],
                'b': [name(x) for x in o['b']], 'kind': kind, 'detail': detail,
                'how': 'Ranges().push(name, block) per area; a & b | a | b | '
                       'a + b | a - b | a.simplify(); .ranges and .value'})
    rep.traces(len(results))
    for o, n, probs in results[:3]:
        rep.sample({'op': o['op'], 'a': [name(x) for x in o['a']],
                    'b': [name(x) for x in o['b']],
                    'expected_cells': len(o['cells'])})
    from . import c06_trace
    c06_trace.run(rep)
    rep.cov['rule'] = (
        'all pairs of rectangles of the NxN grid (N=4 quick, 5 thorough) for '
        '& | + -, all (pair, rectangle) on the 3x3 grid for multi-area '
        'operands, all pairs and triples for simplify; distinct non-trivial = '
        'distinct (op, operands) whose result has >= 2 cells')
    rep.cov['exhaustive'] = thorough
    return rep.finish()


if __name__ == '__main__':
    main_wrapper(main)
