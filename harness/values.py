"""alpha (Python value -> abstract value), gamma (abstract -> formula text / Python
value) and the comparison of an observation with a spec expectation.

Abstract values (JSON, the same records the TLA+ modules use):
  {"k":"n","n":int,"d":int,"e":int}   number n/d * 10^e
  {"k":"t","s":[codes]}               text
  {"k":"b","b":bool}
  {"k":"e","e":"DIV0"|...}            error
  {"k":"z"}                           blank
  {"k":"a","rows":[[scalar,...],...]} array
expectation-only classes:
  {"k":"approx","sign":-1|0|1}        some finite real of that sign (sign 2: any)
  {"k":"any","of":[...]}              one of
  {"k":"anyerr"}                      any error value
"""
import math
from fractions import Fraction

ERR2TXT = {'NULL': '#NULL!', 'DIV0': '#DIV/0!', 'VALUE': '#VALUE!',
           'REF': '#REF!', 'NAME': '#NAME?', 'NUM': '#NUM!', 'NA': '#N/A',
           'CIRC': '#CIRC!'}
TXT2ERR = {v: k for k, v in ERR2TXT.items()}


def N(n, d=1, e=0):
    return {'k': 'n', 'n': n, 'd': d, 'e': e}


def T(s):
    return {'k': 't', 's': [ord(c) for c in s]}


def B(b):
    return {'k': 'b', 'b': bool(b)}


def E(e):
    return {'k': 'e', 'e': e}


Z = {'k': 'z'}


def text_of(v):
    return ''.join(chr(c) for c in v['s'])


def num_of(v):
    x = Fraction(v['n'], v['d'])
    e = v.get('e', 0)
    if e:
        return float(x) * (10.0 ** e)
    return float(x)


def alpha(v, _depth=0):
    """Python value -> abstract value; anything that is not an Excel value
    becomes {"k":"foreign","repr":...}."""
    import numpy as np
    import schedula as sh
    from formulas.tokens.operand import XlError
    from formulas.ranges import Ranges
    if isinstance(v, Ranges):
        try:
            v = v.value
        except Exception as ex:
            return {'k': 'foreign', 'repr': 'Ranges-without-value:%s' % type(ex).__name__}
    if isinstance(v, np.ndarray):
        if v.shape == ():
            return alpha(v.tolist(), _depth)
        if v.size == 1 and _depth == 0:
            return alpha(v.ravel()[0], _depth + 1)
        if _depth > 0:
            return {'k': 'foreign', 'repr': 'nested-array%s' % (v.shape,)}
        if v.ndim == 1:
            rows = [[alpha(x, 1) for x in v]]
        elif v.ndim == 2:
            rows = [[alpha(x, 1) for x in row] for row in v]
        else:
            return {'k': 'foreign', 'repr': 'ndim%d' % v.ndim}
        return {'k': 'a', 'rows': rows}
    if v is sh.EMPTY:
        return dict(Z)
    if isinstance(v, XlError):
        s = str(v) if type(v).__name__ != 'XlCircular' else '#CIRC!'
        s = getattr(v, '_name', None) or s
        # sh.Token is a str subclass; its text is the error text
        txt = str.__str__(v)
        if txt in TXT2ERR:
            return E(TXT2ERR[txt])
        return {'k': 'foreign', 'repr': 'XlError:%r' % txt}
    if isinstance(v, (bool, np.bool_)):
        return B(bool(v))
    if isinstance(v, (int, np.integer)):
        return {'k': 'f', 'x': float(int(v))} if abs(int(v)) < 2 ** 1023 else \
            {'k': 'foreign', 'repr': 'hugeint'}
    if isinstance(v, (float, np.floating)):
        x = float(v)
        if math.isnan(x) or math.isinf(x):
            return {'k': 'foreign', 'repr': repr(x)}
        return {'k': 'f', 'x': x}
    if isinstance(v, str):
        return {'k': 't', 's': [ord(c) for c in v]}
    if isinstance(v, (list, tuple)) and _depth == 0:
        return alpha(np.asarray(v, object), _depth)
    return {'k': 'foreign', 'repr': '%s:%r' % (type(v).__name__, v)[:120]}


def show(a):
    """Short human rendering of an abstract value."""
    k = a.get('k')
    if k == 'n':
        e = a.get('e', 0)
        s = '%d' % a['n'] if a['d'] == 1 else '%d/%d' % (a['n'], a['d'])
        return s + ('e%d' % e if e else '')
    if k == 'f':
        return repr(a['x'])
    if k == 't':
        return '"%s"' % text_of(a)
    if k == 'b':
        return 'TRUE' if a['b'] else 'FALSE'
    if k == 'e':
        return ERR2TXT.get(a['e'], a['e'])
    if k == 'z':
        return 'blank'
    if k == 'a':
        return '{%s}' % ';'.join(','.join(show(x) for x in r) for r in a['rows'])
    if k == 'approx':
        if 'fn' in a:
            return '~%s(%s)' % (a['fn'], ','.join(show(x) for x in a['args']))
        return 'approx(sign=%s)' % a.get('sign')
    if k == 'any':
        return 'anyof(%s)' % '|'.join(show(x) for x in a['of'])
    if k == 'anyerr':
        return 'any-error'
    return str(a)


def klass(a):
    """Outcome class used in finding signatures."""
    k = a.get('k')
    if k in ('n', 'f'):
        return 'num'
    if k == 't':
        return 'text'
    if k == 'b':
        return 'bool'
    if k == 'e':
        return 'err:' + a['e']
    if k == 'z':
        return 'blank'
    if k == 'a':
        return 'array'
    return k


def close(x, y, rel=1e-9):
    return abs(x - y) <= rel * max(1.0, abs(x), abs(y))


def _stdev(xs, sample):
    m = math.fsum(xs) / len(xs)
    return math.sqrt(math.fsum((x - m) ** 2 for x in xs) / (len(xs) - (1 if sample else 0)))


_APPROX = {
    'SQRT': math.sqrt, 'EXP': math.exp, 'LN': math.log, 'LOG10': math.log10,
    'SIN': math.sin, 'COS': math.cos, 'TAN': math.tan, 'ASIN': math.asin, 'ACOS': math.acos,
    'ATAN': math.atan, 'SINH': math.sinh, 'COSH': math.cosh, 'TANH': math.tanh,
    'RADIANS': math.radians, 'DEGREES': math.degrees,
    'LOG': lambda x, b: math.log(x) / math.log(b),
    'ATAN2': lambda x, y: math.atan2(y, x),
    'FACT': lambda x: float(math.factorial(int(x))),
    'FACTDOUBLE': lambda x: float(math.prod(range(int(x), 0, -2))),
}


def approx_ref(fn, xs):
    """Double-precision value of an irrational result the specification only names."""
    try:
        if fn in ('STDEV', 'STDEV.S'):
            return _stdev(xs, True)
        if fn in ('STDEVP', 'STDEV.P'):
            return _stdev(xs, False)
        return _APPROX[fn](*xs)
    except (KeyError, ValueError, OverflowError, ZeroDivisionError):
        return None


def matches(exp, obs):
    """Is the observed abstract value (from alpha) in the expected class?"""
    ke, ko = exp.get('k'), obs.get('k')
    if ko == 'foreign':
        return False
    if ke == 'any':
        return any(matches(x, obs) for x in exp['of'])
    if ke == 'anyerr':
        return ko == 'e'
    if ke == 'approx':
        if ko != 'f':
            return False
        if 'fn' in exp:
            ref = approx_ref(exp['fn'], [num_of(a) for a in exp['args']])
            return ref is not None and close(ref, obs['x'])
        s = exp.get('sign', 2)
        x = obs['x']
        return s == 2 or (s == 0 and x == 0) or (s > 0 and x > 0) or (s < 0 and x < 0)
    if ke == 'n':
        if ko != 'f':
            return False
        return close(num_of(exp), obs['x'])
    if ke == 't':
        return ko == 't' and exp['s'] == obs['s']
    if ke == 'b':
        return ko == 'b' and exp['b'] == obs['b']
    if ke == 'e':
        return ko == 'e' and exp['e'] == obs['e']
    if ke == 'z':
        return ko == 'z'
    if ke == 'a':
        er = exp['rows']
        if ko != 'a':
            # 1x1 arrays are unwrapped by alpha
            if len(er) == 1 and len(er[0]) == 1:
                return matches(er[0][0], obs)
            return False
        orows = obs['rows']
        if len(er) != len(orows):
            return False
        for r1, r2 in zip(er, orows):
            if len(r1) != len(r2):
                return False
            for x, y in zip(r1, r2):
                if not matches(x, y):
                    return False
        return True
    return False


# ---------------------------------------------------------------------------
# gamma: abstract scalar -> formula literal / python cell value
# ---------------------------------------------------------------------------
def lit(a):
    """Formula-text literal for an abstract scalar (None when a blank has no
    literal form)."""
    k = a['k']
    if k == 'n':
        return num_lit(a)
    if k == 't':
        return '"%s"' % text_of(a).replace('"', '""')
    if k == 'b':
        return 'TRUE' if a['b'] else 'FALSE'
    if k == 'e':
        return ERR2TXT[a['e']]
    return None


def num_lit(a):
    n, d, e = a['n'], a['d'], a.get('e', 0)
    x = Fraction(n, d)
    if e:
        m = repr(float(abs(x)))
        if m.endswith('.0'):
            m = m[:-2]
        s = '%sE%s%d' % (m, '+' if e > 0 else '-', abs(e))
    else:
        if x.denominator == 1:
            s = str(abs(x.numerator))
        else:
            s = repr(float(abs(x)))
            if 'e' in s:
                s = ('%.15f' % float(abs(x))).rstrip('0')
    return ('-' if x < 0 else '') + s


def pyval(a):
    """Python cell value for an abstract scalar."""
    import schedula as sh
    from formulas.tokens.operand import Error
    k = a['k']
    if k == 'n':
        x = Fraction(a['n'], a['d'])
        e = a.get('e', 0)
        if e:
            return float(x) * 10.0 ** e
        return int(x) if x.denominator == 1 else float(x)
    if k == 't':
        return text_of(a)
    if k == 'b':
        return a['b']
    if k == 'e':
        return Error.errors[ERR2TXT[a['e']]]
    if k == 'z':
        return sh.EMPTY
    raise ValueError(a)


def cellval(a):
    """Value to supply for a referenced cell (a blank is a 1x1 EMPTY array, the
    form the library itself uses for unpopulated cells)."""
    import schedula as sh
    if a['k'] == 'z':
        return [[sh.EMPTY]]
    return pyval(a)
