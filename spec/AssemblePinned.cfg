SPECIFICATION Spec
CONSTANTS
  NC = 2
  NR = 2
  MaxReq = 2
  MaxBlk = 0
  Compact = 1
  EmitObl = FALSE
\* expected to FAIL: the recorded C07 finding at the level of the design - a value
\* supplied through a range does not reach a blank member that already had a node
INVARIANT InvReachesEveryBlank
CHECK_DEADLOCK FALSE
