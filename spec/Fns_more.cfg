SPECIFICATION Spec
CONSTANTS
  EmitObl = FALSE
  Family = "more"
INVARIANT WellFormed
INVARIANT PercentileBracket
INVARIANT PercentileEnds
INVARIANT CeilFloorMathLaw
INVARIANT MatrixLaws
INVARIANT Obl
CHECK_DEADLOCK FALSE
