SPECIFICATION TSpec
CONSTANTS
  N = 1
  M = 1
  EmitObl = FALSE
  FixedMergeRows = TRUE
POSTCONDITION Consumed
CHECK_DEADLOCK FALSE
