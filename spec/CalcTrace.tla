----------------------------- MODULE CalcTrace -----------------------------
(* Trace validation for C03 / C07 / C14: one calculation recorded from the  *)
(* real library (hook H4: every value a cell node receives, in order).      *)
(* A trace is [w, events] - the case it ran and the sequence of [id, v].    *)
(* Each event must be a step of Workbook!Calc from the state reached so     *)
(* far: a constant (or supplied input) receives its own value; a formula    *)
(* cell fires only when every cell it depends on has its value, at most     *)
(* once, and with exactly EvalCell of the values recorded before it.        *)
EXTENDS Workbook

Traces == JsonDeserialize(IOEnv.TRACE_FILE)
VARIABLES ti, pos
tvars == <<ti, pos, w, val>>

Cur == Traces[ti]
W == Cases[Cur.w]
Report(clause) == PrintT(<<"REJECT", ti, pos, clause>>)
Chk(cond, clause) == IF cond THEN TRUE ELSE Report(clause)

Start(i) == [id \in {k \in DOMAIN Cases[Traces[i].w].ov : k \notin DOMAIN Cases[Traces[i].w].names}
                |-> Cases[Traces[i].w].ov[id]]

TInit == ti = 1 /\ pos = 1 /\ w = Traces[1].w /\ val = Start(1)

TStep ==
  /\ ti <= Len(Traces)
  /\ pos <= Len(Cur.events)
  /\ LET e == Cur.events[pos]
         id == e.id
     IN IF id \notin CellIds(W) THEN
           /\ Chk(e.v = Blank, "unpopulated-cell-not-blank")
           /\ UNCHANGED val
        ELSE IF id \in DOMAIN val THEN     \* e.g. written back through a name: same value only
           /\ Chk(e.v = val[id], "value-changed-within-one-calculation")
           /\ UNCHANGED val
        ELSE IF W.cells[id].k = "c" \/ id \in OvIds(W) THEN
           /\ Chk(e.v = (IF id \in OvIds(W) THEN OvValue(W, id) ELSE W.cells[id].v),
                  "constant-or-input-changed")
           /\ val' = Extend(val, id, e.v)
        ELSE
           /\ Chk(\A d \in Deps(W, id) : d \in DOMAIN val \/ W.cells[id].k = "sp",
                  "fired-before-its-inputs")
           /\ Chk((\E d \in Deps(W, id) : d \notin DOMAIN val /\ W.cells[id].k # "sp")
                     \/ Matches(EvalCell(W, val, id), e.v), "value-is-not-the-formula-of-its-inputs")
           /\ val' = Extend(val, id, e.v)
  /\ pos' = pos + 1
  /\ UNCHANGED <<ti, w>>

TEnd ==
  /\ ti <= Len(Traces)
  /\ pos = Len(Cur.events) + 1
  /\ Chk(\A id \in CellIds(W) : id \in DOMAIN val \/ ~Cur.total, "cell-never-valued")
  /\ ti' = ti + 1
  /\ pos' = 1
  /\ IF ti < Len(Traces) THEN w' = Traces[ti + 1].w /\ val' = Start(ti + 1)
     ELSE UNCHANGED <<w, val>>

TNext == TStep \/ TEnd
TSpec == TInit /\ [][TNext]_tvars
Consumed == ToString(TLCGet("stats").diameter) = IOEnv.EXPECT_DIAMETER
=============================================================================
