SPECIFICATION TSpec
CONSTANTS
  Alphabet = {}
  MaxLen = 0
  EmitObl = FALSE
POSTCONDITION Consumed
CHECK_DEADLOCK FALSE
