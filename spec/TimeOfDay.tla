------------------------------ MODULE TimeOfDay ------------------------------
(* C20 - HOUR / MINUTE / SECOND invert TIME for every second of the day.    *)
EXTENDS Integers, Sequences, TLC, Json
CONSTANT EmitObl
HMS(x) == <<x \div 3600, (x % 3600) \div 60, x % 60>>
Sec(h, mi, s) == 3600 * h + 60 * mi + s
VARIABLE t
Init == t \in 0..86399
Next == UNCHANGED t
Spec == Init /\ [][Next]_t
Inverse == LET x == HMS(t) IN Sec(x[1], x[2], x[3]) = t /\ x[1] \in 0..23 /\ x[2] \in 0..59 /\ x[3] \in 0..59
Obl == EmitObl => PrintT("OBL " \o ToJson([t |-> t, hms |-> HMS(t)]))
=============================================================================
