CONSTANTS
  EmitObl = TRUE
  Base = 2
  MaxLen = 10
  Digits = {0, 1}
SPECIFICATION Spec
INVARIANT LimbsOK
INVARIANT NegRange
INVARIANT AppendLaw
INVARIANT Obl
CHECK_DEADLOCK FALSE
