SPECIFICATION Spec
CONSTANTS
  Alphabet = {"A1", ",", "(", ")", "SUM("}
  MaxLen = 10
  EmitObl = TRUE
INVARIANT TypeOK
INVARIANT Agree
INVARIANT RpnIsPostOrder
INVARIANT RenderFix
INVARIANT RedundantParens
INVARIANT Obl
CHECK_DEADLOCK FALSE
