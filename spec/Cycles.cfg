CONSTANTS
  N = 3
  EmitObl = FALSE
SPECIFICATION Spec
INVARIANT Sound
INVARIANT EachOnce
PROPERTY Termination
CHECK_DEADLOCK FALSE
