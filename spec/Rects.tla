------------------------------- MODULE Rects -------------------------------
(* C06 - reference operators as cell-set algebra.                           *)
(*                                                                          *)
(* A rectangle is [s, n1, r1, n2, r2] (sheet, first column, first row,     *)
(* last column, last row); an area list is a sequence of rectangles.        *)
(* Part 1 (ideal): the operators defined on cells.                          *)
(* Part 2 (implementation-shaped): formulas/ranges.py - _intersect, _split, *)
(* Ranges.__and__/__or__/__add__/__sub__, simplify/_merge - transcribed     *)
(* loop by loop.  TLC checks that part 2 refines part 1 for every operand   *)
(* combination of the bounded grid and emits every case as an obligation.   *)
EXTENDS Integers, Sequences, FiniteSets, TLC, Json

CONSTANTS N,          \* grid side for single-rectangle operands
          M,          \* grid side for multi-area operands
          EmitObl

Min2(a, b) == IF a <= b THEN a ELSE b
Max2(a, b) == IF a >= b THEN a ELSE b

Rect(s, n1, r1, n2, r2) == [s |-> s, n1 |-> n1, r1 |-> r1, n2 |-> n2, r2 |-> r2]
RectsOn(s, k) == {Rect(s, a, b, c, d) : a \in 1..k, b \in 1..k, c \in 1..k, d \in 1..k}
Proper(S) == {x \in S : x.n1 <= x.n2 /\ x.r1 <= x.r2}

\* ---------------------------------------------------------------- ideal --
CellsOf(x) == {<<x.s, c, r>> : c \in x.n1..x.n2, r \in x.r1..x.r2}
CellSet(L) == UNION {CellsOf(L[i]) : i \in 1..Len(L)}
Count(L, cell) == Cardinality({i \in 1..Len(L) : cell \in CellsOf(L[i])})
NoDup(L) == \A cell \in CellSet(L) : Count(L, cell) = 1
SameSheet(L) == \A i \in 1..Len(L) : L[i].s = L[1].s

\* intersection (space): the cells common to both references
IdealInterCells(A, B) == CellSet(A) \cap CellSet(B)
\* range (:): the bounding rectangle, on one sheet only
IdealBound(A, B) ==
  LET L == A \o B
  IN IF ~SameSheet(L) THEN [k |-> "err"]
     ELSE [k |-> "rect",
           r |-> Rect(L[1].s,
                      CHOOSE v \in {L[i].n1 : i \in 1..Len(L)} : \A i \in 1..Len(L) : v <= L[i].n1,
                      CHOOSE v \in {L[i].r1 : i \in 1..Len(L)} : \A i \in 1..Len(L) : v <= L[i].r1,
                      CHOOSE v \in {L[i].n2 : i \in 1..Len(L)} : \A i \in 1..Len(L) : v >= L[i].n2,
                      CHOOSE v \in {L[i].r2 : i \in 1..Len(L)} : \A i \in 1..Len(L) : v >= L[i].r2)]
\* union (,): every operand area, in order, overlaps kept
IdealUnion(A, B) == A \o B
\* difference: the cells of A not in B, each once
IdealDiffCells(A, B) == CellSet(A) \ CellSet(B)

\* ------------------------------------------------ implementation-shaped --
Null == [k |-> "null"]

ImplIntersect(x, y) ==       \* _intersect
  IF x.s # y.s THEN Null
  ELSE LET n1 == Max2(y.n1, x.n1)  n2 == Min2(y.n2, x.n2)
       IN IF n1 > n2 THEN Null
          ELSE LET r1 == Max2(y.r1, x.r1)  r2 == Min2(y.r2, x.r2)
               IN IF r1 > r2 THEN Null ELSE Rect(x.s, n1, r1, n2, r2)

\* _split(base, rng): the up to four remainders of rng outside base
ImplSplit(base, rng) ==
  LET z == ImplIntersect(base, rng)
  IN IF z = Null THEN <<rng>>
     ELSE LET p1 == IF z.n1 # rng.n1 THEN <<[rng EXCEPT !.n2 = z.n1 - 1]>> ELSE <<>>
              c1 == [rng EXCEPT !.n1 = z.n1]
              p2 == IF z.n2 # c1.n2 THEN <<[c1 EXCEPT !.n1 = z.n2 + 1]>> ELSE <<>>
              c2 == [c1 EXCEPT !.n2 = z.n2]
              p3 == IF z.r1 # c2.r1 THEN <<[c2 EXCEPT !.r2 = z.r1 - 1]>> ELSE <<>>
              c3 == [c2 EXCEPT !.r1 = z.r1]
              p4 == IF z.r2 # c3.r2 THEN <<[c3 EXCEPT !.r1 = z.r2 + 1]>> ELSE <<>>
          IN p1 \o p2 \o p3 \o p4

\* Ranges.__and__: for rng in other: for r in self: the non-empty intersections
RECURSIVE AndInner(_, _), AndOuter(_, _)
AndInner(selfL, rng) ==
  IF selfL = <<>> THEN <<>>
  ELSE LET z == ImplIntersect(rng, Head(selfL))
       IN (IF z = Null THEN <<>> ELSE <<z>>) \o AndInner(Tail(selfL), rng)
AndOuter(selfL, otherL) ==
  IF otherL = <<>> THEN <<>> ELSE AndInner(selfL, Head(otherL)) \o AndOuter(selfL, Tail(otherL))
ImplAnd(A, B) == AndOuter(A, B)

ImplOr(A, B) == A \o B

\* Ranges.__add__: the loop that widens the first area by all the others
RECURSIVE AddLoop(_, _)
AddLoop(acc, rest) ==
  IF acc.k = "err" \/ rest = <<>> THEN acc
  ELSE LET r == Head(rest)  a == acc.r
       IN IF a.s # r.s THEN [k |-> "err"]
          ELSE AddLoop([k |-> "rect",
                        r |-> Rect(a.s, Min2(a.n1, r.n1), Min2(a.r1, r.r1),
                                   Max2(a.n2, r.n2), Max2(a.r2, r.r2))], Tail(rest))
ImplAdd(A, B) == AddLoop([k |-> "rect", r |-> A[1]], Tail(A) \o B)

\* Ranges.__sub__: every area of self is split against other's areas and
\* against the pieces already produced
RECURSIVE SplitAll(_, _), SubAgainst(_, _), SubLoop(_, _, _)
SplitAll(b, st) == IF st = <<>> THEN <<>> ELSE ImplSplit(b, Head(st)) \o SplitAll(b, Tail(st))
SubAgainst(base, st) == IF base = <<>> THEN st ELSE SubAgainst(Tail(base), SplitAll(Head(base), st))
SubLoop(selfL, base, k) ==    \* k = Len(other)
  IF selfL = <<>> THEN SubSeq(base, k + 1, Len(base))
  ELSE SubLoop(Tail(selfL), base \o SubAgainst(base, <<Head(selfL)>>), k)
ImplSub(A, B) == SubLoop(A, B, Len(B))

\* Ranges.simplify: cut into single columns, sort, merge rows, merge columns
Key(x) == <<x.n1, x.r1, -x.n2, -x.r2>>
KeyLess(a, b) ==
  LET ka == Key(a)  kb == Key(b)
  IN \E i \in 1..4 : ka[i] < kb[i] /\ \A j \in 1..(i - 1) : ka[j] = kb[j]
RECURSIVE InsertSorted(_, _), SortL(_)
InsertSorted(x, L) ==
  IF L = <<>> THEN <<x>>
  ELSE IF KeyLess(x, Head(L)) THEN <<x>> \o L ELSE <<Head(L)>> \o InsertSorted(x, Tail(L))
SortL(L) == IF L = <<>> THEN <<>> ELSE InsertSorted(Head(L), SortL(Tail(L)))   \* stable enough: ties are equal

CONSTANT FixedMergeRows      \* TRUE: base.r2 = max(base.r2, rng.r2); FALSE: the pinned tree's base.r2 = rng.r2
MergeRow(base, rng) ==       \* _merge_raw_update
  IF base.s = rng.s /\ base.n1 = rng.n2 /\ base.r2 + 1 >= rng.r1
  THEN [ok |-> TRUE, b |-> [base EXCEPT !.r2 = IF FixedMergeRows THEN Max2(base.r2, rng.r2) ELSE rng.r2]]
  ELSE [ok |-> FALSE]
MergeCol(base, rng) ==       \* _merge_col_update
  IF base.s = rng.s /\ base.n2 + 1 = rng.n1 /\ base.r1 = rng.r1 /\ base.r2 = rng.r2
  THEN [ok |-> TRUE, b |-> [base EXCEPT !.n2 = rng.n2]]
  ELSE [ok |-> FALSE]

RECURSIVE MergePass(_, _, _)
MergePass(it, acc, rows) ==
  IF it = <<>> THEN acc
  ELSE LET r == Head(it)
           m == IF acc = <<>> THEN [ok |-> FALSE]
                ELSE IF rows THEN MergeRow(acc[Len(acc)], r) ELSE MergeCol(acc[Len(acc)], r)
       IN IF m.ok THEN MergePass(Tail(it), [acc EXCEPT ![Len(acc)] = m.b], rows)
          ELSE MergePass(Tail(it), acc \o <<r>>, rows)

ImplMerge(L) == MergePass(SortL(MergePass(SortL(L), <<>>, TRUE)), <<>>, FALSE)

Columns(L) ==   \* the whole-column operands simplify() intersects with
  LET lo == CHOOSE v \in {L[i].n1 : i \in 1..Len(L)} : \A i \in 1..Len(L) : v <= L[i].n1
      hi == CHOOSE v \in {L[i].n2 : i \in 1..Len(L)} : \A i \in 1..Len(L) : v >= L[i].n2
  IN [c \in 1..(hi - lo + 1) |-> Rect(L[1].s, lo + c - 1, 0, lo + c - 1, 1048576)]

ImplSimplify(L) == IF Len(L) <= 1 THEN L ELSE ImplMerge(ImplAnd(L, Columns(L)))

-----------------------------------------------------------------------------
\* operand universes
Single == Proper(RectsOn(1, N))
Small == Proper(RectsOn(1, M))
OtherSheet == {Rect(2, 1, 1, 2, 2), Rect(2, 2, 1, 2, 1)}
Pairs == {<<a, b>> : a \in Small, b \in Small}

VARIABLES op, A, B, res
vars == <<op, A, B, res>>
Pending == [k |-> "pending"]

Init ==
  /\ res = Pending
  /\ \/ /\ op \in {"and", "or", "add", "sub"}
        /\ A \in {<<a>> : a \in Single \cup OtherSheet}
        /\ B \in {<<b>> : b \in Single \cup OtherSheet}
     \/ /\ op \in {"and", "sub", "add"}
        /\ A \in Pairs
        /\ B \in {<<b>> : b \in Small}
     \/ /\ op \in {"and", "sub"}
        /\ A \in {<<a>> : a \in Small}
        /\ B \in Pairs
     \/ /\ op = "simplify"
        /\ A \in Pairs \cup {<<a, b, c>> : a \in Small, b \in Small, c \in Small}
        /\ B = <<>>

Apply ==
  /\ res = Pending
  /\ res' = CASE op = "and" -> [k |-> "list", l |-> ImplAnd(A, B)]
              [] op = "or" -> [k |-> "list", l |-> ImplOr(A, B)]
              [] op = "add" -> ImplAdd(A, B)
              [] op = "sub" -> [k |-> "list", l |-> ImplSub(A, B)]
              [] op = "simplify" -> [k |-> "list", l |-> ImplSimplify(A)]
  /\ UNCHANGED <<op, A, B>>

Next == Apply
Spec == Init /\ [][Next]_vars

Done == res # Pending

\* ---- refinement invariants ------------------------------------------------
InterExact == (Done /\ op = "and") => CellSet(res.l) = IdealInterCells(A, B)
InterSingleNoDup == (Done /\ op = "and" /\ Len(A) = 1 /\ Len(B) = 1) => Len(res.l) <= 1
\* a cell of the intersection is seen once per pair of areas that cover it
InterMultiplicity == (Done /\ op = "and") =>
   \A cell \in IdealInterCells(A, B) : Count(res.l, cell) = Count(A, cell) * Count(B, cell)
UnionExact == (Done /\ op = "or") => res.l = IdealUnion(A, B)
BoundExact == (Done /\ op = "add") => res = IdealBound(A, B)
BoundContains == (Done /\ op = "add" /\ res.k = "rect") => CellSet(A \o B) \subseteq CellsOf(res.r)
SubExact == (Done /\ op = "sub") => CellSet(res.l) = IdealDiffCells(A, B) /\ NoDup(res.l)
SimplifyExact == (Done /\ op = "simplify") => CellSet(res.l) = CellSet(A) /\ NoDup(res.l)

\* _split partitions: checked through SubExact for single operands, and here
SplitPartition ==
  (op = "sub" /\ Len(A) = 1 /\ Len(B) = 1) =>
     LET P == ImplSplit(B[1], A[1])
     IN CellSet(P) = CellsOf(A[1]) \ CellsOf(B[1]) /\ NoDup(P)

\* algebraic laws of the ideal operators (guards on the spec itself)
InterComm == (op = "and") => IdealInterCells(A, B) = IdealInterCells(B, A)

\* ---- obligations ----------------------------------------------------------
CellsSeq(S) == LET R == {<<c[2], c[3], c[1]>> : c \in S} IN R
Obl ==
  (EmitObl /\ Done) => PrintT("OBL " \o ToJson(
     [op |-> op, a |-> A, b |-> B,
      cells |-> CASE op = "and" -> IdealInterCells(A, B)
                  [] op = "or" -> CellSet(A \o B)
                  [] op = "add" -> (IF IdealBound(A, B).k = "rect" THEN CellsOf(IdealBound(A, B).r) ELSE {})
                  [] op = "sub" -> IdealDiffCells(A, B)
                  [] op = "simplify" -> CellSet(A),
      areas |-> CASE op = "or" -> IdealUnion(A, B)
                  [] op = "add" -> (IF IdealBound(A, B).k = "rect" THEN <<IdealBound(A, B).r>> ELSE <<>>)
                  [] OTHER -> <<>>,
      mult |-> IF op = "and"
               THEN {<<c[1], c[2], c[3], Count(A, c) * Count(B, c)>> : c \in IdealInterCells(A, B)}
               ELSE {},
      err |-> op = "add" /\ IdealBound(A, B).k = "err"]))
=============================================================================
