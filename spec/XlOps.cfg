SPECIFICATION Spec
INVARIANT WellFormed
INVARIANT LeftmostError
INVARIANT CmpIsBool
INVARIANT ConcatIsText
INVARIANT CoercionConsistent
PROPERTY OperandsKept
POSTCONDITION Emit
CHECK_DEADLOCK FALSE
