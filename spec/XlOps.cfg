SPECIFICATION Spec
INVARIANT WellFormed
INVARIANT LeftmostError
INVARIANT CmpIsBool
INVARIANT ConcatIsText
INVARIANT CoercionConsistent
POSTCONDITION Emit
CHECK_DEADLOCK FALSE
