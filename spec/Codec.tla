------------------------------- MODULE Codec -------------------------------
(* C09 - the JSON codec for constants, as a machine over text constants.    *)
(*                                                                          *)
(* Ideal: Import(Export(c)) = c for every constant c (text, number, logical,*)
(* error, blank).  Implementation-shaped (ExcelModel.to_dict / from_dict /  *)
(* Cell.__init__): on export a text that starts with "=" is wrapped as the  *)
(* formula ="<text>" (as is every text import would not read as text); on   *)
(* import a string is                                                       *)
(*   - the blank placeholder when it equals #EMPTY in any letter case,      *)
(*   - a formula when it starts with "=" (or is written {=...}),            *)
(*   - an error literal when it is exactly an error name (#N/A, ...),       *)
(*   - a text otherwise.                                                    *)
(* The state space is the prefix tree of strings over Chars up to MaxLen.   *)
EXTENDS XlValue, Json

CONSTANTS Chars, MaxLen

Q == 34       \* the double quote
EQ == 61      \* =

HASH_EMPTY == <<35, 69, 77, 80, 84, 89>>              \* #EMPTY
ErrTexts == {<<35, 78, 47, 65>>,                         \* #N/A
             <<35, 78, 85, 77, 33>>}                     \* #NUM!   (within the alphabet used)

StartsWith(s, c) == s # <<>> /\ s[1] = c

\* ---- export ----------------------------------------------------------------
\* a string from_dict would not read as plain text.  Cell.__init__ looks past leading
\* white space, takes {= as the start of an array formula, and takes an error name that
\* is qualified by a sheet name (Data!#N/A) for the error value too.
RECURSIVE Lead(_)
Lead(x) == IF x # <<>> /\ Head(x) \in {32, 9} THEN Lead(Tail(x)) ELSE x
IsFormula(x) ==
  LET y == Lead(x)
  IN \/ StartsWith(y, EQ) /\ Len(y) >= 2                  \* "=" and something after it
     \/ StartsWith(y, 123) /\ Len(y) >= 3 /\ y[2] = EQ     \* {=...
IsErrText(x) ==
  LET y == Lead(x)
  IN \E i \in 1..Len(y) : /\ SubSeq(y, i, Len(y)) \in ErrTexts
                            /\ (i = 1 \/ (i > 2 /\ y[i - 1] = 33))
ReadsAsOther(x) == IsFormula(x) \/ IsErrText(x) \/ UpperS(x) = HASH_EMPTY

RECURSIVE DoubleQuotes(_)
DoubleQuotes(x) == IF x = <<>> THEN <<>>
                   ELSE (IF Head(x) = Q THEN <<Q, Q>> ELSE <<Head(x)>>) \o DoubleQuotes(Tail(x))

\* what to_dict writes for a text constant: the string itself, or ="<text>"
\* (quotes doubled) when the string itself would be read as something else
ExportText(x) == IF ReadsAsOther(x) THEN <<EQ, Q>> \o DoubleQuotes(x) \o <<Q>> ELSE x

\* ---- import ----------------------------------------------------------------
\* reading the formula ="<body>" back: the string literal ends at the first
\* quote that is not doubled
RECURSIVE ReadString(_, _)
ReadString(s, acc) ==     \* s: text after the opening quote; result [ok, txt, rest]
  IF s = <<>> THEN [ok |-> FALSE]
  ELSE IF Head(s) = Q THEN
     (IF Len(s) >= 2 /\ s[2] = Q THEN ReadString(SubSeq(s, 3, Len(s)), acc \o <<Q>>)
      ELSE [ok |-> TRUE, txt |-> acc, rest |-> Tail(s)])
  ELSE ReadString(Tail(s), acc \o <<Head(s)>>)

ImportString(x) ==
  IF UpperS(x) = HASH_EMPTY THEN Blank
  ELSE IF IsErrText(x) THEN [k |-> "some-error"]
  ELSE IF IsFormula(x) THEN
     (IF x[1] = EQ /\ x[2] = Q THEN
        (LET r == ReadString(SubSeq(x, 3, Len(x)), <<>>)
         IN IF r.ok /\ r.rest = <<>> THEN Txt(r.txt) ELSE [k |-> "other-formula"])
      ELSE [k |-> "other-formula"])
  ELSE Txt(x)

RoundTrip(s) == ImportString(ExportText(s))

VARIABLE s
Init == s = <<>>
Next == \E c \in Chars : Len(s) < MaxLen /\ s' = Append(s, c)
Spec == Init /\ [][Next]_s

\* (The pinned tree escaped only texts starting with "=" and did not double
\* quotes; three deviations - #EMPTY, error names, quotes - were repaired, see
\* known_findings.jsonl "fixed".)
RoundTripOK == RoundTrip(s) = Txt(s)
\* plain texts are exported as they are
PlainUntouched == ~ReadsAsOther(s) => ExportText(s) = s

Obl == PrintT("OBL " \o ToJson([s |-> s, esc |-> ReadsAsOther(s)]))
=============================================================================
