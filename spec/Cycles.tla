------------------------------- MODULE Cycles -------------------------------
(* C10 (cycle analysis) - formulas/excel/cycle.py simple_cycles.            *)
(*                                                                          *)
(* Ideal: Elementary(G) - the elementary cycles of a digraph, each as the   *)
(* node sequence that starts at its smallest node.                          *)
(* Implementation-shaped: Johnson's algorithm as written in cycle.py, one   *)
(* loop iteration per step.  Every place where the code takes an element    *)
(* out of a set, or out of a list built from a set (sccs.pop(), scc.pop(),  *)
(* nbrs.pop() on list(graph[node])), is a nondeterministic choice here:     *)
(* that is exactly the dependence on dict insertion order and hash seed.    *)
(* EachOnce: whatever the choices, the emitted cycles are Elementary(G),    *)
(* each exactly once; the search terminates.                                *)
EXTENDS Naturals, Sequences, FiniteSets, TLC, Json

CONSTANTS N,           \* nodes 1..N
          EmitObl

Nodes == 1..N
Graphs == [Nodes -> SUBSET Nodes]

\* ---- ideal ------------------------------------------------------------------
SimpleSeqs == UNION {{p \in [1..k -> Nodes] : \A i, j \in 1..k : i # j => p[i] # p[j]} : k \in 1..N}
IsCycle(G, p) ==
  /\ \A i \in 1..(Len(p) - 1) : p[i + 1] \in G[p[i]]
  /\ p[1] \in G[p[Len(p)]]
Canonical(p) == \A i \in 2..Len(p) : p[1] < p[i]
Elementary(G) == {p \in SimpleSeqs : IsCycle(G, p) /\ Canonical(p)}

\* rotate a cycle so that it starts at its smallest node
MinOf(p) == CHOOSE m \in {p[i] : i \in 1..Len(p)} : \A i \in 1..Len(p) : m <= p[i]
Rotate(p) ==
  LET k == CHOOSE i \in 1..Len(p) : p[i] = MinOf(p)
      n == Len(p)
  IN [i \in 1..n |-> p[((k - 1 + i - 1) % n) + 1]]

\* strongly connected components of the subgraph induced by S
RECURSIVE ReachIn(_, _, _)
ReachIn(G, S, R) ==
  LET R2 == R \cup UNION {G[x] \cap S : x \in R}
  IN IF R2 = R THEN R ELSE ReachIn(G, S, R2)
Reaches(G, S, a, b) == b \in ReachIn(G, S, G[a] \cap S) \/ a = b
SCCs(G, S) == {{b \in S : Reaches(G, S, a, b) /\ Reaches(G, S, b, a)} : a \in S}

\* ---- the machine --------------------------------------------------------------
VARIABLES G0,       \* the input graph
          g,        \* the working copy (start nodes are removed from it)
          pend,     \* sccs: the components still to be searched
          rest,     \* scc after scc.pop(): the component minus the start node
          start, path, blocked, closed, nocirc, stk, out, mode
vars == <<G0, g, pend, rest, start, path, blocked, closed, nocirc, stk, out, mode>>

Init == /\ G0 \in Graphs
        /\ g = G0
        /\ pend = SCCs(G0, Nodes)
        /\ rest = {} /\ start = 0 /\ path = <<>> /\ blocked = {} /\ closed = {}
        /\ nocirc = [n \in Nodes |-> {}]
        /\ stk = <<>> /\ out = <<>> /\ mode = "pick"

\* scc = sccs.pop(); startnode = scc.pop(); ... stack = [(startnode, list(graph[startnode]))]
Pick ==
  /\ mode = "pick" /\ pend # {}
  /\ \E scc \in pend : \E s \in scc :
        /\ pend' = pend \ {scc}
        /\ rest' = scc \ {s}
        /\ start' = s
        /\ path' = <<s>>
        /\ blocked' = {s}
        /\ closed' = {}
        /\ nocirc' = [n \in Nodes |-> {}]
        /\ stk' = <<[n |-> s, nb |-> g[s]]>>
        /\ mode' = "loop"
  /\ UNCHANGED <<G0, g, out>>

\* _unblock(thisnode, blocked, no_circuit)
RECURSIVE UnblockSet(_, _, _, _)
UnblockSet(todo, done, B, NC) ==   \* the nodes that get unblocked
  IF todo = {} THEN done
  ELSE LET x == CHOOSE y \in todo : TRUE
       IN IF x \in B /\ x \notin done
          THEN UnblockSet((todo \ {x}) \cup NC[x], done \cup {x}, B, NC)
          ELSE UnblockSet(todo \ {x}, done, B, NC)

\* the tail of one loop iteration: `if not nbrs:` ...
Finish(thisnode, nbEmpty, bl, cl, nc, st, pa) ==
  IF ~nbEmpty THEN [bl |-> bl, nc |-> nc, st |-> st, pa |-> pa]
  ELSE IF thisnode \in cl THEN
     (LET U == UnblockSet({thisnode}, {}, bl, nc)
      IN [bl |-> bl \ U, nc |-> [n \in Nodes |-> IF n \in U THEN {} ELSE nc[n]],
          st |-> SubSeq(st, 1, Len(st) - 1), pa |-> SubSeq(pa, 1, Len(pa) - 1)])
  ELSE [bl |-> bl,
        nc |-> [n \in Nodes |-> IF n \in g[thisnode] THEN nc[n] \cup {thisnode} ELSE nc[n]],
        st |-> SubSeq(st, 1, Len(st) - 1), pa |-> SubSeq(pa, 1, Len(pa) - 1)]

Step ==
  /\ mode = "loop" /\ stk # <<>>
  /\ LET top == stk[Len(stk)]
         this == top.n
     IN IF top.nb # {} THEN
          \E nx \in top.nb :                 \* nextnode = nbrs.pop()
             LET nb2 == top.nb \ {nx}
                 st1 == [stk EXCEPT ![Len(stk)].nb = nb2]
             IN IF nx = start THEN           \* yield path[:]; closed.update(path)
                   LET cl2 == closed \cup {path[i] : i \in 1..Len(path)}
                       f == Finish(this, nb2 = {}, blocked, cl2, nocirc, st1, path)
                   IN /\ out' = Append(out, Rotate(path))
                      /\ closed' = cl2
                      /\ blocked' = f.bl /\ nocirc' = f.nc /\ stk' = f.st /\ path' = f.pa
                ELSE IF nx \notin blocked THEN    \* descend; `continue`
                   /\ path' = Append(path, nx)
                   /\ stk' = Append(st1, [n |-> nx, nb |-> g[nx]])
                   /\ closed' = closed \ {nx}
                   /\ blocked' = blocked \cup {nx}
                   /\ UNCHANGED <<nocirc, out>>
                ELSE
                   LET f == Finish(this, nb2 = {}, blocked, closed, nocirc, st1, path)
                   IN /\ blocked' = f.bl /\ nocirc' = f.nc /\ stk' = f.st /\ path' = f.pa
                      /\ UNCHANGED <<closed, out>>
        ELSE
          LET f == Finish(this, TRUE, blocked, closed, nocirc, stk, path)
          IN /\ blocked' = f.bl /\ nocirc' = f.nc /\ stk' = f.st /\ path' = f.pa
             /\ UNCHANGED <<closed, out>>
  /\ UNCHANGED <<G0, g, pend, rest, start, mode>>

\* _remove_node(graph, startnode); sccs.extend(scc's of the subgraph on the rest)
Close ==
  /\ mode = "loop" /\ stk = <<>>
  /\ LET g2 == [n \in Nodes |-> IF n = start THEN {} ELSE g[n] \ {start}]
     IN /\ g' = g2
        /\ pend' = pend \cup SCCs(g2, rest)
  /\ mode' = "pick"
  /\ UNCHANGED <<G0, rest, start, path, blocked, closed, nocirc, stk, out>>

Done == mode = "pick" /\ pend = {}
Next == Pick \/ Step \/ Close
Spec == Init /\ [][Next]_vars /\ WF_vars(Next)

OutSet == {out[i] : i \in 1..Len(out)}
NoDup == \A i, j \in 1..Len(out) : out[i] = out[j] => i = j
\* never a wrong or repeated cycle on the way; all of them at the end
Sound == OutSet \subseteq Elementary(G0) /\ NoDup
EachOnce == Done => OutSet = Elementary(G0)
Termination == <>Done

\* (for emitting the obligations of larger N without exploring the machine)
NoStep == FALSE /\ UNCHANGED vars

Obl == (EmitObl /\ mode = "pick" /\ out = <<>> /\ g = G0) =>
          PrintT("OBL " \o ToJson([g |-> G0, cycles |-> Elementary(G0)]))
=============================================================================
