SPECIFICATION Spec
CONSTANTS
  EmitObl = FALSE
  Group = "three"
INVARIANT Total
INVARIANT ErrorKept
INVARIANT Obl
CHECK_DEADLOCK FALSE
