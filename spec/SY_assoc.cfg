SPECIFICATION Spec
CONSTANTS
  Alphabet = {"2", "3", "TRUE", "^", "/", "-", "(", ")"}
  MaxLen = 7
  EmitObl = TRUE
INVARIANT TypeOK
INVARIANT Agree
INVARIANT RpnIsPostOrder
INVARIANT RenderFix
INVARIANT RedundantParens
INVARIANT Obl
CHECK_DEADLOCK FALSE
