----------------------------- MODULE XlValue -----------------------------
(* The value universe shared by every specification of /verif/spec.        *)
(*                                                                          *)
(* A scalar Excel value is a record tagged by k:                            *)
(*   [k |-> "n", n, d, e]   the number  n/d * 10^e   (d > 0, gcd(n,d) = 1;  *)
(*                          e is 0 except for the symbolic magnitudes       *)
(*                          10^+-200 that model overflow / underflow)       *)
(*   [k |-> "t", s]         text, s a sequence of character codes           *)
(*   [k |-> "b", b]         logical                                         *)
(*   [k |-> "e", e]         error value, e in ErrNames                      *)
(*   [k |-> "z"]            blank (an empty cell seen through a reference)  *)
(* and an array is [k |-> "a", rows |-> <<row, ...>>] of scalars.           *)
(* Expectation classes produced by the specification only:                  *)
(*   [k |-> "approx", sign] a finite real of that sign that has no exact    *)
(*                          representation here (sign 2 = any sign)         *)
(*   [k |-> "any", of]      any member of the set/sequence `of`             *)
(*   [k |-> "anyerr"]       any error value                                 *)
EXTENDS Integers, Sequences, FiniteSets, TLC

ErrNames == {"NULL", "DIV0", "VALUE", "REF", "NAME", "NUM", "NA", "CIRC"}

Abs(x) == IF x < 0 THEN -x ELSE x
Sgn(x) == IF x < 0 THEN -1 ELSE IF x = 0 THEN 0 ELSE 1
Min2(a, b) == IF a <= b THEN a ELSE b
Max2(a, b) == IF a >= b THEN a ELSE b

RECURSIVE GCD(_, _)
GCD(a, b) == IF b = 0 THEN a ELSE GCD(b, a % b)

\* ---- constructors -------------------------------------------------------
NumE(n, d, e) ==
  IF n = 0 THEN [k |-> "n", n |-> 0, d |-> 1, e |-> 0]
  ELSE LET s == IF d < 0 THEN -1 ELSE 1
           g == GCD(Abs(n), Abs(d))
       IN [k |-> "n", n |-> (s * n) \div g, d |-> Abs(d) \div g, e |-> e]
Num(n, d) == NumE(n, d, 0)
IntV(n) == NumE(n, 1, 0)
Txt(s) == [k |-> "t", s |-> s]
Bool(b) == [k |-> "b", b |-> b]
Err(e) == [k |-> "e", e |-> e]
Blank == [k |-> "z"]
Arr(rows) == [k |-> "a", rows |-> rows]
Approx(sign) == [k |-> "approx", sign |-> sign]
AnyErr == [k |-> "anyerr"]
AnyOf(S) == [k |-> "any", of |-> S]

IsNum(v) == v.k = "n"
IsTxt(v) == v.k = "t"
IsBool(v) == v.k = "b"
IsErr(v) == v.k = "e"
IsBlank(v) == v.k = "z"
IsArr(v) == v.k = "a"
IsScalar(v) == v.k \in {"n", "t", "b", "e", "z"}
IsResultClass(v) == v.k \in {"approx", "any", "anyerr"}

Zero == IntV(0)
One == IntV(1)

\* ---- exact arithmetic on numbers ----------------------------------------
\* Magnitudes 10^+-200 are symbolic: adding terms of different magnitude keeps
\* the larger (exactly what IEEE doubles do for 1e200 + 1), products add the
\* exponents and leave the double range beyond +-308.
Overflow == [k |-> "ovf"]     \* internal marker: magnitude left the range

NIsZero(a) == a.n = 0
NNeg(a) == NumE(-a.n, a.d, a.e)
NSign(a) == Sgn(a.n)

NAdd(a, b) ==
  IF a.n = 0 THEN b ELSE IF b.n = 0 THEN a
  ELSE IF a.e = b.e THEN NumE(a.n * b.d + b.n * a.d, a.d * b.d, a.e)
  ELSE IF a.e > b.e THEN a ELSE b

NSub(a, b) == NAdd(a, NNeg(b))

Ranged(v) ==  \* clamp the symbolic exponent to the double range
  IF v.n = 0 THEN v
  ELSE IF v.e > 308 THEN Overflow
  ELSE IF v.e < -323 THEN Zero
  ELSE v

NMul(a, b) == Ranged(NumE(a.n * b.n, a.d * b.d, a.e + b.e))

\* b # 0
NDiv(a, b) == Ranged(NumE(a.n * b.d, a.d * b.n, a.e - b.e))

\* -1, 0, 1 as a < b, a = b, a > b
NCmp(a, b) ==
  LET sa == NSign(a)  sb == NSign(b)
  IN IF sa # sb THEN (IF sa < sb THEN -1 ELSE 1)
     ELSE IF sa = 0 THEN 0
     ELSE IF a.e # b.e THEN (IF (a.e < b.e) = (sa > 0) THEN -1 ELSE 1)
     ELSE Sgn(a.n * b.d - b.n * a.d)

NIsInt(a) == a.n = 0 \/ (a.d = 1 /\ a.e >= 0)

RECURSIVE NPowNat(_, _)
NPowNat(a, k) ==  \* k \in Nat; may return Overflow
  IF k = 0 THEN One
  ELSE LET r == NPowNat(a, k - 1)
       IN IF r = Overflow THEN Overflow ELSE NMul(r, a)

\* floor of n/d for d > 0 (TLC's \div floors)
Floor(n, d) == n \div d

\* ---- text ---------------------------------------------------------------
Upper(c) == IF c >= 97 /\ c <= 122 THEN c - 32 ELSE c
Lower(c) == IF c >= 65 /\ c <= 90 THEN c + 32 ELSE c
UpperS(s) == [i \in 1..Len(s) |-> Upper(s[i])]
LowerS(s) == [i \in 1..Len(s) |-> Lower(s[i])]

RECURSIVE SeqCmp(_, _)
SeqCmp(s, t) ==  \* lexicographic on codes: -1 / 0 / 1
  IF s = <<>> THEN (IF t = <<>> THEN 0 ELSE -1)
  ELSE IF t = <<>> THEN 1
  ELSE IF Head(s) # Head(t) THEN (IF Head(s) < Head(t) THEN -1 ELSE 1)
  ELSE SeqCmp(Tail(s), Tail(t))

TextCmp(s, t) == SeqCmp(UpperS(s), UpperS(t))   \* Excel ignores case

IsDigit(c) == c >= 48 /\ c <= 57
IsSpace(c) == c = 32

RECURSIVE DigitsOf(_)
DigitsOf(n) ==   \* n \in Nat -> decimal digits as codes
  IF n < 10 THEN <<48 + n>> ELSE DigitsOf(n \div 10) \o <<48 + (n % 10)>>

RECURSIVE FracDigits(_, _, _)
FracDigits(r, d, budget) ==  \* digits of r/d (0 <= r < d) after the point
  IF r = 0 \/ budget = 0 THEN <<>>
  ELSE <<48 + ((r * 10) \div d)>> \o FracDigits((r * 10) % d, d, budget - 1)

\* Display form of a number with a terminating decimal expansion
DisplayNum(a) ==
  LET m == Abs(a.n)
      ip == m \div a.d
      fr == FracDigits(m % a.d, a.d, 12)
      mant == (IF a.n < 0 THEN <<45>> ELSE <<>>) \o DigitsOf(ip)
              \o (IF fr = <<>> THEN <<>> ELSE <<46>> \o fr)
  IN IF a.e = 0 THEN mant
     ELSE mant \o <<69>> \o (IF a.e > 0 THEN <<43>> ELSE <<45>>) \o DigitsOf(Abs(a.e))

TRUEs == <<84, 82, 85, 69>>
FALSEs == <<70, 65, 76, 83, 69>>

Display(v) ==   \* text form used by & and the text functions
  CASE v.k = "n" -> DisplayNum(v)
    [] v.k = "t" -> v.s
    [] v.k = "b" -> IF v.b THEN TRUEs ELSE FALSEs
    [] v.k = "z" -> <<>>

\* ---- numeric text:  ws* [+-]? (d+ [. d*] | . d+) ([eE] [+-]? d+)? ws* ----
RECURSIVE StripL(_)
StripL(s) == IF s # <<>> /\ IsSpace(Head(s)) THEN StripL(Tail(s)) ELSE s
RECURSIVE StripR(_)
StripR(s) == IF s # <<>> /\ IsSpace(s[Len(s)]) THEN StripR(SubSeq(s, 1, Len(s) - 1)) ELSE s
Strip(s) == StripR(StripL(s))

RECURSIVE TakeDigits(_)
TakeDigits(s) ==  \* longest digit prefix
  IF s # <<>> /\ IsDigit(Head(s)) THEN <<Head(s)>> \o TakeDigits(Tail(s)) ELSE <<>>

RECURSIVE DigitsVal(_, _)
DigitsVal(ds, acc) == IF ds = <<>> THEN acc ELSE DigitsVal(Tail(ds), acc * 10 + (Head(ds) - 48))

RECURSIVE Pow10(_)
Pow10(k) == IF k = 0 THEN 1 ELSE 10 * Pow10(k - 1)

Drop(s, k) == SubSeq(s, k + 1, Len(s))

NotNumeric == [k |-> "nan"]

\* Returns a number or NotNumeric.  Exponents beyond +-9 stay symbolic (field e).
ParseNumber(s0) ==
  LET s1 == Strip(s0)
      neg == s1 # <<>> /\ Head(s1) = 45
      s2 == IF s1 # <<>> /\ Head(s1) \in {43, 45} THEN Tail(s1) ELSE s1
      ip == TakeDigits(s2)
      s3 == Drop(s2, Len(ip))
      hasDot == s3 # <<>> /\ Head(s3) = 46
      fp == IF hasDot THEN TakeDigits(Tail(s3)) ELSE <<>>
      s4 == IF hasDot THEN Drop(s3, 1 + Len(fp)) ELSE s3
      hasE == s4 # <<>> /\ Head(s4) \in {69, 101}
      s5 == IF hasE THEN Tail(s4) ELSE s4
      eneg == hasE /\ s5 # <<>> /\ Head(s5) = 45
      s6 == IF hasE /\ s5 # <<>> /\ Head(s5) \in {43, 45} THEN Tail(s5) ELSE s5
      ed == IF hasE THEN TakeDigits(s6) ELSE <<>>
      s7 == IF hasE THEN Drop(s6, Len(ed)) ELSE s4
      okMant == ip # <<>> \/ fp # <<>>
      okExp == ~hasE \/ (ed # <<>> /\ Len(ed) <= 3)
      mant == DigitsVal(ip \o fp, 0)
      ev == (IF eneg THEN -1 ELSE 1) * DigitsVal(ed, 0)
      ex == ev - Len(fp)
      sg == IF neg THEN -1 ELSE 1
  IN IF ~(okMant /\ okExp /\ s7 = <<>>) THEN NotNumeric
     ELSE IF Abs(ev) > 3 \/ (ev # 0 /\ mant > 99999) THEN
          NumE(sg * mant, Pow10(Len(fp)), ev)                     \* symbolic magnitude
     ELSE IF ex >= 0 THEN Num(sg * mant * Pow10(ex), 1)
     ELSE Num(sg * mant, Pow10(-ex))

\* ---- does an observed value lie in an expected class? ---------------------
\* Observations are scalars, or [k |-> "x", sign] for a finite number that is
\* not exactly representable in this universe.
RECURSIVE Matches(_, _)
Matches(exp, obs) ==
  CASE exp.k = "approx" ->
         /\ obs.k \in {"n", "x"}
         /\ (exp.sign = 2 \/ (IF obs.k = "n" THEN Sgn(obs.n) ELSE obs.sign) = exp.sign)
    [] exp.k = "any" -> \E i \in DOMAIN exp.of : Matches(exp.of[i], obs)
    [] exp.k = "anyerr" -> obs.k = "e"
    [] OTHER -> exp = obs

=============================================================================
