------------------------------- MODULE FnDef -------------------------------
(* C12 - the core worksheet functions, written from their Excel definitions *)
(* over the exact value universe of XlValue (numbers are rationals, text is *)
(* a sequence of character codes).                                          *)
(*                                                                          *)
(* An argument is a record                                                  *)
(*   [f |-> "v", v |-> scalar]   a directly typed value                     *)
(*   [f |-> "r", v |-> Arr(..)]  a referenced range (cells may be blank)    *)
(*   [f |-> "a", v |-> Arr(..)]  an array literal                           *)
(* A reference to one cell is a 1 x 1 range.  Fn(name, args) is the value.  *)
(* Results that are irrational are stated as Approx classes that carry the  *)
(* function and its exact arguments (the harness evaluates those in double  *)
(* precision - numeric accuracy is not a matter for TLC).                   *)
EXTENDS XlArrayDef

Direct(v) == [f |-> "v", v |-> v]
Ref(rows) == [f |-> "r", v |-> Arr(rows)]
Lit(rows) == [f |-> "a", v |-> Arr(rows)]
Cell1(v) == Ref(<<<<v>>>>)                     \* a reference to a single cell

RECURSIVE FlatRows(_)
FlatRows(rows) == IF rows = <<>> THEN <<>> ELSE Head(rows) \o FlatRows(Tail(rows))
Flat(a) == IF a.f = "v" THEN <<a.v>> ELSE FlatRows(a.v.rows)
IsDirect(a) == a.f = "v"
\* the scalar an element-wise function sees: the value, or the one cell of a 1 x 1 range
Scalar(a) == IF a.f = "v" THEN a.v ELSE a.v.rows[1][1]

VALUE == Err("VALUE")
NUM == Err("NUM")
DIV0 == Err("DIV0")

\* ---- error bookkeeping ---------------------------------------------------------
ErrOrder == <<"NULL", "DIV0", "VALUE", "REF", "NAME", "NUM", "NA">>
\* the class "one of the errors of S" (a single one when S has one element)
OneOf(S) ==
  LET q == SelectSeq(ErrOrder, LAMBDA e : e \in S)
  IN IF Len(q) = 1 THEN Err(q[1]) ELSE AnyOf([i \in 1..Len(q) |-> Err(q[i])])

\* ---- integer helpers -----------------------------------------------------------
RECURSIVE ISqrtB(_, _, _)
ISqrtB(n, lo, hi) ==        \* largest r in lo..hi with r*r <= n
  IF lo >= hi THEN lo
  ELSE LET mid == (lo + hi + 1) \div 2
       IN IF mid * mid <= n THEN ISqrtB(n, mid, hi) ELSE ISqrtB(n, lo, mid - 1)
ISqrt(n) == ISqrtB(n, 0, Min2(n, 46340))
IsSquare(n) == ISqrt(n) * ISqrt(n) = n

CeilDiv(n, d) == -((-n) \div d)       \* d > 0
NFloor(x) == IntV(x.n \div x.d)       \* floor of a number (e = 0)
NCeil(x) == IntV(CeilDiv(x.n, x.d))
NTrunc(x) == IF x.n >= 0 THEN NFloor(x) ELSE NCeil(x)
NAbs(x) == NumE(Abs(x.n), x.d, x.e)

ApproxF(fn, xs, sign) == [k |-> "approx", sign |-> sign, fn |-> fn, args |-> xs]

\* ---- aggregation: which values count --------------------------------------------
Skip == [k |-> "skip"]
\* one item of an argument as a number / error / Skip (SUM, AVERAGE, MIN, ... rule)
NumItem(x, direct) ==
  CASE x.k = "e" -> x
    [] x.k = "n" -> x
    [] x.k = "b" -> IF direct THEN (IF x.b THEN One ELSE Zero) ELSE Skip
    [] x.k = "t" -> IF direct
                    THEN (LET p == ParseNumber(x.s) IN IF p = NotNumeric THEN VALUE ELSE p)
                    ELSE Skip
    [] OTHER -> Skip
RECURSIVE ItemsOf(_)
ItemsOf(args) ==      \* all items, argument by argument, row-major
  IF args = <<>> THEN <<>>
  ELSE LET a == Head(args)
           fl == Flat(a)
       IN [i \in 1..Len(fl) |-> NumItem(fl[i], IsDirect(a))] \o ItemsOf(Tail(args))
ErrsIn(items) == {items[i].e : i \in {j \in 1..Len(items) : items[j].k = "e"}}
NumsIn(items) == SelectSeq(items, LAMBDA x : x.k = "n")

RECURSIVE SumSeq(_), ProdSeq(_), SumSqSeq(_)
SumSeq(s) == IF s = <<>> THEN Zero ELSE NAdd(Head(s), SumSeq(Tail(s)))
ProdSeq(s) == IF s = <<>> THEN One ELSE NMul(Head(s), ProdSeq(Tail(s)))
SumSqSeq(s) == IF s = <<>> THEN Zero ELSE NAdd(NMul(Head(s), Head(s)), SumSqSeq(Tail(s)))
RECURSIVE MinSeq(_), MaxSeq(_)
MinSeq(s) == IF Len(s) = 1 THEN s[1]
             ELSE LET m == MinSeq(Tail(s)) IN IF NCmp(Head(s), m) <= 0 THEN Head(s) ELSE m
MaxSeq(s) == IF Len(s) = 1 THEN s[1]
             ELSE LET m == MaxSeq(Tail(s)) IN IF NCmp(Head(s), m) >= 0 THEN Head(s) ELSE m

\* sorted ascending (insertion sort on numbers)
RECURSIVE InsertN(_, _), SortN(_)
InsertN(x, s) == IF s = <<>> THEN <<x>>
                 ELSE IF NCmp(x, Head(s)) <= 0 THEN <<x>> \o s ELSE <<Head(s)>> \o InsertN(x, Tail(s))
SortN(s) == IF s = <<>> THEN <<>> ELSE InsertN(Head(s), SortN(Tail(s)))

SqrtOf(x, fn, xs) ==      \* square root of a non-negative number
  IF x.n = 0 THEN Zero
  ELSE IF x.e = 0 /\ x.n < 2000000000 /\ IsSquare(x.n) /\ IsSquare(x.d) THEN Num(ISqrt(x.n), ISqrt(x.d))
  ELSE ApproxF(fn, xs, 1)

\* sum of squared deviations from the mean
Dev2(ns) ==
  LET n == Len(ns)
      mean == NDiv(SumSeq(ns), IntV(n))
  IN SumSeq([i \in 1..n |-> LET d == NSub(ns[i], mean) IN NMul(d, d)])

AggNames == {"SUM", "PRODUCT", "SUMSQ", "AVERAGE", "MIN", "MAX", "MEDIAN",
             "STDEV", "STDEV.S", "STDEVP", "STDEV.P", "VAR", "VAR.S", "VARP", "VAR.P"}
Agg(fn, args) ==
  LET items == ItemsOf(args)
      errs == ErrsIn(items)
      ns == NumsIn(items)
      n == Len(ns)
      sample == fn \in {"STDEV", "STDEV.S", "VAR", "VAR.S"}
  IN IF errs # {} THEN OneOf(errs)
     ELSE CASE fn = "SUM" -> SumSeq(ns)
            [] fn = "PRODUCT" -> IF n = 0 THEN Zero ELSE ProdSeq(ns)
            [] fn = "SUMSQ" -> SumSqSeq(ns)
            [] fn = "AVERAGE" -> IF n = 0 THEN DIV0 ELSE NDiv(SumSeq(ns), IntV(n))
            [] fn = "MIN" -> IF n = 0 THEN Zero ELSE MinSeq(ns)
            [] fn = "MAX" -> IF n = 0 THEN Zero ELSE MaxSeq(ns)
            [] fn = "MEDIAN" ->
                 IF n = 0 THEN NUM
                 ELSE LET s == SortN(ns)
                      IN IF n % 2 = 1 THEN s[(n + 1) \div 2]
                         ELSE NDiv(NAdd(s[n \div 2], s[n \div 2 + 1]), IntV(2))
            [] fn \in {"VAR", "VAR.S", "VARP", "VAR.P"} ->
                 IF n = 0 \/ (sample /\ n = 1) THEN DIV0
                 ELSE NDiv(Dev2(ns), IntV(IF sample THEN n - 1 ELSE n))
            [] fn \in {"STDEV", "STDEV.S", "STDEVP", "STDEV.P"} ->
                 IF n = 0 \/ (sample /\ n = 1) THEN DIV0
                 ELSE SqrtOf(NDiv(Dev2(ns), IntV(IF sample THEN n - 1 ELSE n)), fn, SortN(ns))

\* COUNT: numbers; directly typed logicals and numeric text too; errors are not counted
\* COUNTA: everything that is not blank; COUNTBLANK: blanks and empty text
CountItem(fn, x, direct) ==
  CASE fn = "COUNT" ->
         IF x.k = "n" THEN 1
         ELSE IF direct /\ x.k = "b" THEN 1
         ELSE IF direct /\ x.k = "t" /\ ParseNumber(x.s) # NotNumeric THEN 1
         ELSE 0
    [] fn = "COUNTA" -> IF x.k = "z" THEN 0 ELSE 1
    [] fn = "COUNTBLANK" -> IF x.k = "z" \/ (x.k = "t" /\ x.s = <<>>) THEN 1 ELSE 0
RECURSIVE CountSeq(_, _, _)
CountSeq(fn, fl, direct) ==
  IF fl = <<>> THEN 0 ELSE CountItem(fn, Head(fl), direct) + CountSeq(fn, Tail(fl), direct)
RECURSIVE CountArgs(_, _)
CountArgs(fn, args) ==
  IF args = <<>> THEN 0
  ELSE CountSeq(fn, Flat(Head(args)), IsDirect(Head(args))) + CountArgs(fn, Tail(args))

\* LARGE / SMALL (array, k): the k-th largest / smallest of the numbers
Kth(fn, arr, karg) ==
  LET items == ItemsOf(<<arr>>)
      errs == ErrsIn(items)
      ns == SortN(NumsIn(items))
      kv == Scalar(karg)
      kc == Coerce(kv)
      k == IF kc.k = "e" THEN 0 ELSE CeilDiv(kc.n, kc.d)         \* a fractional k is rounded up
      kerr == IF kc.k = "e" THEN {kc.e}
              ELSE IF Len(ns) = 0 \/ k < 1 \/ k > Len(ns) THEN {"NUM"} ELSE {}
  IN \* errors of the array and of k: which of two is reported is not defined here
     IF errs # {} /\ kerr # {} THEN AnyErr
     ELSE IF errs # {} THEN OneOf(errs)
     ELSE IF kerr # {} THEN OneOf(kerr)
     ELSE IF fn = "SMALL" THEN ns[k] ELSE ns[Len(ns) + 1 - k]

\* SUMPRODUCT(arrays of one shape): non-numeric entries count as 0
ProdItem(x) == IF x.k = "n" THEN x ELSE IF x.k = "e" THEN x ELSE Zero
SumProduct(args) ==
  LET shapes == {<<Rows(args[i].v), Cols(args[i].v)>> : i \in 1..Len(args)}
      fl == [i \in 1..Len(args) |-> LET q == Flat(args[i]) IN [j \in 1..Len(q) |-> ProdItem(q[j])]]
      errs == UNION {ErrsIn(fl[i]) : i \in 1..Len(args)}
      m == Len(fl[1])
  IN IF Cardinality(shapes) # 1 THEN OneOf(errs \cup {"VALUE"})
     ELSE IF errs # {} THEN OneOf(errs)
     ELSE SumSeq([j \in 1..m |-> ProdSeq([i \in 1..Len(args) |-> fl[i][j]])])

\* ---- logical ------------------------------------------------------------------------
\* the logical a condition stands for: Bool(..) or an error value
AsLogical(v) ==
  CASE v.k = "e" -> v
    [] v.k = "b" -> v
    [] v.k = "n" -> Bool(v.n # 0)
    [] v.k = "z" -> Bool(FALSE)
    [] v.k = "t" -> IF UpperS(v.s) = TRUEs THEN Bool(TRUE)
                    ELSE IF UpperS(v.s) = FALSEs THEN Bool(FALSE) ELSE VALUE
\* a value handed back from a branch: a blank cell reads as 0
Back(v) == IF v.k = "z" THEN Zero ELSE v

LogicItem(x, direct) ==      \* AND / OR / XOR
  CASE x.k = "e" -> x
    [] x.k = "b" -> x
    [] x.k = "n" -> Bool(x.n # 0)
    [] x.k = "t" ->      \* typed text: TRUE / FALSE, or a number; in a range it is skipped
         IF ~direct THEN Skip
         ELSE IF AsLogical(x).k = "b" THEN AsLogical(x)
         ELSE (LET p == ParseNumber(x.s) IN IF p = NotNumeric THEN VALUE ELSE Bool(p.n # 0))
    [] OTHER -> Skip
RECURSIVE LogicItems(_)
LogicItems(args) ==
  IF args = <<>> THEN <<>>
  ELSE LET a == Head(args)
           fl == Flat(a)
       IN [i \in 1..Len(fl) |-> LogicItem(fl[i], IsDirect(a))] \o LogicItems(Tail(args))
Junction(fn, args) ==
  LET items == LogicItems(args)
      errs == ErrsIn(items)
      bs == SelectSeq(items, LAMBDA x : x.k = "b")
      trues == Cardinality({i \in 1..Len(bs) : bs[i].b})
  IN IF errs # {} THEN OneOf(errs)
     ELSE IF bs = <<>> THEN VALUE
     ELSE CASE fn = "AND" -> Bool(trues = Len(bs))
            [] fn = "OR" -> Bool(trues > 0)
            [] fn = "XOR" -> Bool(trues % 2 = 1)

If(c, a, b) ==      \* scalars
  LET l == AsLogical(c)
  IN IF l.k = "e" THEN l ELSE IF l.b THEN Back(a) ELSE Back(b)

RECURSIVE Ifs(_)
Ifs(xs) ==          \* <<c1, v1, c2, v2, ...>>
  IF xs = <<>> THEN Err("NA")
  ELSE LET l == AsLogical(xs[1])
       IN IF l.k = "e" THEN l ELSE IF l.b THEN Back(xs[2]) ELSE Ifs(SubSeq(xs, 3, Len(xs)))

SameValue(a, b) ==     \* SWITCH compares like "=", without wild cards
  a.k # "e" /\ b.k # "e" /\ Cmp3(a, b) = 0
RECURSIVE Switch(_, _)
Switch(x, xs) ==       \* xs = <<v1, r1, ..., [default]>>
  IF x.k = "e" THEN x
  ELSE IF xs = <<>> THEN Err("NA")
  ELSE IF Len(xs) = 1 THEN Back(xs[1])
  ELSE IF xs[1].k = "e" THEN xs[1]
  ELSE IF SameValue(x, xs[1]) THEN Back(xs[2])
  ELSE Switch(x, SubSeq(xs, 3, Len(xs)))

\* ---- information ---------------------------------------------------------------------
IsFn(fn, v) ==
  CASE fn = "ISBLANK" -> Bool(v.k = "z")
    [] fn = "ISNUMBER" -> Bool(v.k = "n")
    [] fn = "ISTEXT" -> Bool(v.k = "t")
    [] fn = "ISNONTEXT" -> Bool(v.k # "t")
    [] fn = "ISLOGICAL" -> Bool(v.k = "b")
    [] fn = "ISERROR" -> Bool(v.k = "e")
    [] fn = "ISERR" -> Bool(v.k = "e" /\ v.e # "NA")
    [] fn = "ISNA" -> Bool(v.k = "e" /\ v.e = "NA")
Parity(fn, v) ==       \* ISEVEN / ISODD: the number is truncated first
  IF v.k = "e" THEN v
  ELSE IF v.k = "b" THEN VALUE
  ELSE LET x == Coerce(v)
       IN IF x.k = "e" THEN x
          ELSE LET t == NTrunc(x).n IN Bool((t % 2 = 0) = (fn = "ISEVEN"))

\* ---- element-wise mathematics ---------------------------------------------------------
Pow10N(k) == IF k >= 0 THEN IntV(Pow10(k)) ELSE Num(1, Pow10(-k))
\* round |x| * 10^d to an integer in the given mode, give back sign * r / 10^d
RoundTo(mode, x, d) ==
  LET m == Pow10N(d)
      y == NMul(NAbs(x), m)
      r == CASE mode = "half" -> IntV((2 * y.n + y.d) \div (2 * y.d))
             [] mode = "up" -> NCeil(y)
             [] mode = "down" -> NFloor(y)
      v == NDiv(r, m)
  IN IF x.n < 0 THEN NNeg(v) ELSE v

Math1(fn, x) ==      \* x a number
  CASE fn = "ABS" -> NAbs(x)
    [] fn = "SIGN" -> IntV(NSign(x))
    [] fn = "INT" -> NFloor(x)
    [] fn = "SQRT" -> IF x.n < 0 THEN NUM ELSE SqrtOf(x, "SQRT", <<x>>)
    [] fn = "EXP" -> IF x.n = 0 THEN One
                     ELSE IF NCmp(x, IntV(709)) > 0 THEN NUM          \* beyond the double range
                     ELSE ApproxF("EXP", <<x>>, 1)
    [] fn = "LN" -> IF x.n <= 0 THEN NUM ELSE IF x = One THEN Zero
                    ELSE ApproxF("LN", <<x>>, IF NCmp(x, One) > 0 THEN 1 ELSE -1)
    [] fn = "LOG10" -> IF x.n <= 0 THEN NUM ELSE IF x = One THEN Zero
                       ELSE ApproxF("LOG10", <<x>>, IF NCmp(x, One) > 0 THEN 1 ELSE -1)
    [] fn = "EVEN" -> LET r == IntV(2 * CeilDiv(Abs(x.n), 2 * x.d)) IN IF x.n < 0 THEN NNeg(r) ELSE r
    [] fn = "ODD" -> LET c == CeilDiv(Abs(x.n), x.d)          \* |x| rounded up to an integer
                         o == IF c % 2 = 1 THEN c ELSE c + 1
                     IN IF x.n < 0 THEN IntV(-o) ELSE IntV(o)
    [] fn \in {"SIN", "TAN", "ASIN", "ATAN", "SINH", "TANH"} ->
          IF x.n = 0 THEN Zero
          ELSE IF fn = "ASIN" /\ NCmp(NAbs(x), One) > 0 THEN NUM
          ELSE IF fn = "SINH" /\ NCmp(NAbs(x), IntV(710)) > 0 THEN NUM
          ELSE ApproxF(fn, <<x>>, 2)
    [] fn \in {"COS", "COSH"} -> IF x.n = 0 THEN One
                                 ELSE IF fn = "COSH" /\ NCmp(NAbs(x), IntV(710)) > 0 THEN NUM
                                 ELSE ApproxF(fn, <<x>>, 2)
    [] fn = "ACOS" -> IF NCmp(NAbs(x), One) > 0 THEN NUM ELSE IF x = One THEN Zero
                      ELSE ApproxF(fn, <<x>>, 1)
    [] fn \in {"RADIANS", "DEGREES"} -> IF x.n = 0 THEN Zero ELSE ApproxF(fn, <<x>>, NSign(x))

Mod(n, d) == IF d.n = 0 THEN DIV0 ELSE NSub(n, NMul(d, NFloor(NDiv(n, d))))
Ceiling(x, s) ==
  IF s.n = 0 THEN Zero
  ELSE IF x.n > 0 /\ s.n < 0 THEN NUM
  ELSE NMul(s, NCeil(NDiv(x, s)))
FloorFn(x, s) ==
  IF s.n = 0 THEN (IF x.n = 0 THEN AnyOf(<<Zero, DIV0>>) ELSE DIV0)
  ELSE IF x.n > 0 /\ s.n < 0 THEN NUM
  ELSE NMul(s, NFloor(NDiv(x, s)))
Log(x, b) ==
  IF b = One /\ x.n <= 0 THEN AnyOf(<<NUM, DIV0>>)      \* two faults at once
  ELSE IF x.n <= 0 \/ b.n <= 0 THEN NUM
  ELSE IF b = One THEN DIV0
  ELSE IF x = One THEN Zero
  ELSE IF x = b THEN One
  ELSE ApproxF("LOG", <<x, b>>, 2)

Math2(fn, x, y) ==    \* numbers
  CASE fn = "POWER" -> Pow(x, y)
    [] fn = "MOD" -> Mod(x, y)
    [] fn = "ROUND" -> RoundTo("half", x, NTrunc(y).n)
    [] fn = "ROUNDUP" -> RoundTo("up", x, NTrunc(y).n)
    [] fn \in {"ROUNDDOWN", "TRUNC"} -> RoundTo("down", x, NTrunc(y).n)
    [] fn = "CEILING" -> Ceiling(x, y)
    [] fn = "FLOOR" -> FloorFn(x, y)
    [] fn = "LOG" -> Log(x, y)
    [] fn = "ATAN2" -> IF x.n = 0 /\ y.n = 0 THEN DIV0
                       ELSE IF y.n = 0 /\ x.n > 0 THEN Zero ELSE ApproxF("ATAN2", <<x, y>>, 2)

\* the scalar rule for numeric element-wise functions: the left-most error, then coercion
MathCall(fn, vs) ==
  LET n == Len(vs)
      errs == {i \in 1..n : vs[i].k = "e"}
      cs == [i \in 1..n |-> Coerce(vs[i])]
      bad == {i \in 1..n : cs[i].k = "e"}
      first(S) == CHOOSE i \in S : \A j \in S : i <= j
  IN IF errs # {} THEN vs[first(errs)]
     ELSE IF bad # {} THEN cs[first(bad)]
     ELSE IF n = 1 THEN Math1(fn, cs[1])
     ELSE Math2(fn, cs[1], cs[2])

\* ---- text ----------------------------------------------------------------------------
TextOf(v) == Display(v)        \* numbers in display form, TRUE / FALSE, blank -> ""
Take(s, k) == SubSeq(s, 1, Min2(k, Len(s)))
RECURSIVE CollapseSp(_, _)
CollapseSp(s, prevSp) ==       \* runs of spaces become one space
  IF s = <<>> THEN <<>>
  ELSE IF Head(s) = 32 THEN (IF prevSp THEN <<>> ELSE <<32>>) \o CollapseSp(Tail(s), TRUE)
  ELSE <<Head(s)>> \o CollapseSp(Tail(s), FALSE)
Trim(s) == Strip(CollapseSp(s, FALSE))

IsPrefixAt(p, s, i) == i + Len(p) - 1 <= Len(s) /\ SubSeq(s, i, i + Len(p) - 1) = p
\* first position >= start where p occurs in s, 0 when none
RECURSIVE FindFrom(_, _, _)
FindFrom(p, s, i) ==
  IF i + Len(p) - 1 > Len(s) THEN 0 ELSE IF IsPrefixAt(p, s, i) THEN i ELSE FindFrom(p, s, i + 1)

\* wild cards for SEARCH: ? one character, * any run, ~ escapes
RECURSIVE WildPrefix(_, _)
WildPrefix(p, s) ==            \* does some prefix of s match p ?
  IF p = <<>> THEN TRUE
  ELSE IF Head(p) = 126 /\ Len(p) >= 2 /\ p[2] \in {42, 63, 126} THEN
     s # <<>> /\ Head(s) = p[2] /\ WildPrefix(SubSeq(p, 3, Len(p)), Tail(s))
  ELSE IF Head(p) = 42 THEN WildPrefix(Tail(p), s) \/ (s # <<>> /\ WildPrefix(p, Tail(s)))
  ELSE IF Head(p) = 63 THEN s # <<>> /\ WildPrefix(Tail(p), Tail(s))
  ELSE s # <<>> /\ Head(s) = Head(p) /\ WildPrefix(Tail(p), Tail(s))
RECURSIVE SearchFrom(_, _, _)
SearchFrom(p, s, i) ==
  IF i > Len(s) + 1 THEN 0
  ELSE IF WildPrefix(p, SubSeq(s, i, Len(s))) /\ (i <= Len(s) \/ p = <<>>) THEN i
  ELSE SearchFrom(p, s, i + 1)

\* an integer argument: Coerce, truncate; an error value stays
IntArg(v) == LET x == Coerce(v) IN IF x.k = "e" THEN x ELSE NTrunc(x)

RECURSIVE SubstAll(_, _, _), SubstNth(_, _, _, _, _)
SubstAll(s, old, new) ==
  IF s = <<>> THEN <<>>
  ELSE IF IsPrefixAt(old, s, 1) THEN new \o SubstAll(Drop(s, Len(old)), old, new)
  ELSE <<Head(s)>> \o SubstAll(Tail(s), old, new)
SubstNth(s, old, new, k, seen) ==     \* replace only the k-th occurrence
  IF s = <<>> THEN <<>>
  ELSE IF IsPrefixAt(old, s, 1) THEN
     (IF seen + 1 = k THEN new \o Drop(s, Len(old))
      ELSE old \o SubstNth(Drop(s, Len(old)), old, new, k, seen + 1))
  ELSE <<Head(s)>> \o SubstNth(Tail(s), old, new, k, seen)

FirstErr(vs) ==
  LET S == {i \in 1..Len(vs) : vs[i].k = "e"}
  IN IF S = {} THEN Blank ELSE vs[CHOOSE i \in S : \A j \in S : i <= j]

TextCall(fn, vs) ==      \* vs scalars
  LET fe == FirstErr(vs)
      s == TextOf(vs[1])
      n == Len(vs)
  IN IF fe.k = "e" THEN fe
     ELSE CASE fn = "LEN" -> IntV(Len(s))
       [] fn = "UPPER" -> Txt(UpperS(s))
       [] fn = "LOWER" -> Txt(LowerS(s))
       [] fn = "TRIM" -> Txt(Trim(s))
       [] fn \in {"LEFT", "RIGHT"} ->
            LET k == IF n = 1 THEN One ELSE IntArg(vs[2])
            IN IF k.k = "e" THEN k ELSE IF k.n < 0 THEN VALUE
               ELSE IF fn = "LEFT" THEN Txt(Take(s, k.n))
               ELSE Txt(SubSeq(s, Max2(1, Len(s) - k.n + 1), Len(s)))
       [] fn = "MID" ->
            LET st == IntArg(vs[2])   k == IntArg(vs[3])
            IN IF st.k = "e" THEN st ELSE IF k.k = "e" THEN k
               ELSE IF st.n < 1 \/ k.n < 0 THEN VALUE
               ELSE Txt(SubSeq(s, st.n, Min2(Len(s), st.n + k.n - 1)))
       [] fn \in {"FIND", "SEARCH"} ->      \* (find_text, within_text, [start])
            LET w == TextOf(vs[2])
                st == IF n = 2 THEN One ELSE IntArg(vs[3])
            IN IF st.k = "e" THEN st
               ELSE IF st.n < 1 \/ st.n > Len(w) + 1 THEN VALUE
               ELSE IF st.n = Len(w) + 1 THEN
                  \* just past the end: only the empty text could be there (Excel's own
                  \* documentation and behaviour differ on it)
                  (IF s = <<>> THEN AnyOf(<<IntV(st.n), VALUE>>) ELSE VALUE)
               ELSE LET r == IF fn = "FIND" THEN FindFrom(s, w, st.n)
                             ELSE SearchFrom(UpperS(s), UpperS(w), st.n)
                    IN IF r = 0 THEN VALUE ELSE IntV(r)
       [] fn = "REPLACE" ->                 \* (old_text, start, count, new_text)
            LET st == IntArg(vs[2])   k == IntArg(vs[3])   nw == TextOf(vs[4])
            IN IF st.k = "e" THEN st ELSE IF k.k = "e" THEN k
               ELSE IF st.n < 1 \/ k.n < 0 THEN VALUE
               ELSE Txt(Take(s, st.n - 1) \o nw \o Drop(s, Min2(Len(s), st.n - 1 + k.n)))
       [] fn = "SUBSTITUTE" ->              \* (text, old, new, [instance])
            LET old == TextOf(vs[2])   nw == TextOf(vs[3])
                k == IF n = 3 THEN Zero ELSE IntArg(vs[4])
            IN IF k.k = "e" THEN k
               ELSE IF n = 4 /\ k.n < 1 THEN VALUE
               ELSE IF old = <<>> THEN Txt(s)
               ELSE IF n = 3 THEN Txt(SubstAll(s, old, nw))
               ELSE Txt(SubstNth(s, old, nw, k.n, 0))
       [] fn = "VALUE" ->
            CASE vs[1].k = "n" -> vs[1]
              [] vs[1].k = "z" -> Zero
              [] vs[1].k = "b" -> VALUE
              [] vs[1].k = "t" -> LET p == ParseNumber(vs[1].s)
                                  IN IF p = NotNumeric THEN VALUE ELSE p

\* ---- beyond the list of C12 (same value universe, replayed for information) ----------
\* MAXA / MINA / AVERAGEA: text and logicals count too (text 0, TRUE 1, FALSE 0)
AItem(x, direct) ==
  CASE x.k = "e" -> x
    [] x.k = "n" -> x
    [] x.k = "b" -> IF x.b THEN One ELSE Zero
    [] x.k = "t" -> IF direct
                    THEN (LET p == ParseNumber(x.s) IN IF p = NotNumeric THEN VALUE ELSE p)
                    ELSE Zero
    [] OTHER -> Skip
RECURSIVE AItemsOf(_)
AItemsOf(args) ==
  IF args = <<>> THEN <<>>
  ELSE LET a == Head(args)   fl == Flat(a)
       IN [i \in 1..Len(fl) |-> AItem(fl[i], IsDirect(a))] \o AItemsOf(Tail(args))
AggA(fn, args) ==
  LET items == AItemsOf(args)   errs == ErrsIn(items)   ns == NumsIn(items)   n == Len(ns)
  IN IF errs # {} THEN OneOf(errs)
     ELSE CASE fn = "MAXA" -> IF n = 0 THEN Zero ELSE MaxSeq(ns)
            [] fn = "MINA" -> IF n = 0 THEN Zero ELSE MinSeq(ns)
            [] fn = "AVERAGEA" -> IF n = 0 THEN DIV0 ELSE NDiv(SumSeq(ns), IntV(n))
\* GCD / LCM of truncated non-negative numbers
RECURSIVE GcdSeq(_), LcmSeq(_)
GcdSeq(s) == IF s = <<>> THEN 0 ELSE GCD(Head(s), GcdSeq(Tail(s)))
LcmSeq(s) == IF s = <<>> THEN 1
             ELSE LET r == LcmSeq(Tail(s))  h == Head(s)
                  IN IF h = 0 \/ r = 0 THEN 0 ELSE (h * r) \div GCD(h, r)
GcdLcm(fn, args) ==
  LET items == ItemsOf(args)   errs == ErrsIn(items)   ns == NumsIn(items)
      ints == [i \in 1..Len(ns) |-> NTrunc(ns[i]).n]
  IN IF errs # {} THEN OneOf(errs)
     ELSE IF \E i \in 1..Len(ints) : ints[i] < 0 THEN NUM
     ELSE IF fn = "GCD" THEN IntV(GcdSeq(ints)) ELSE IntV(LcmSeq(ints))
RECURSIVE FactN(_)
FactN(n) == IF n <= 1 THEN 1 ELSE n * FactN(n - 1)
MRound(x, mlt) ==
  IF mlt.n = 0 \/ x.n = 0 THEN Zero
  ELSE IF NSign(x) # NSign(mlt) THEN NUM
  ELSE LET q == NDiv(NAbs(x), NAbs(mlt))
           r == IntV((2 * q.n + q.d) \div (2 * q.d))         \* half away from zero
       IN NMul(r, mlt)
Extra1(fn, v) ==       \* one scalar
  IF v.k = "e" THEN v
  ELSE CASE fn = "T" -> IF v.k = "t" THEN v ELSE Txt(<<>>)
         [] fn = "CODE" -> LET s == TextOf(v) IN IF s = <<>> THEN VALUE ELSE IntV(s[1])
         [] fn = "CHAR" -> LET x == Coerce(v)
                           IN IF x.k = "e" THEN x
                              ELSE LET c == NTrunc(x).n
                                   IN IF c < 1 \/ c > 255 THEN VALUE ELSE Txt(<<c>>)
         [] fn = "FACT" -> LET x == Coerce(v)
                           IN IF x.k = "e" THEN x ELSE IF x.n < 0 THEN NUM
                              ELSE IF NTrunc(x).n > 170 THEN NUM          \* beyond the double range
                              ELSE IF NTrunc(x).n > 12 THEN ApproxF("FACT", <<NTrunc(x)>>, 1)
                              ELSE IntV(FactN(NTrunc(x).n))

\* CONCAT: every item of every argument, in order; CONCATENATE: scalars only
RECURSIVE JoinAll(_)
JoinAll(xs) == IF xs = <<>> THEN <<>> ELSE TextOf(Head(xs)) \o JoinAll(Tail(xs))
RECURSIVE AllItems(_)
AllItems(args) == IF args = <<>> THEN <<>> ELSE Flat(Head(args)) \o AllItems(Tail(args))
Concat(args) ==
  LET xs == AllItems(args)   fe == FirstErr(xs)
  IN IF fe.k = "e" THEN fe ELSE Txt(JoinAll(xs))

RECURSIVE JoinWith(_, _)
JoinWith(d, parts) ==
  IF parts = <<>> THEN <<>>
  ELSE IF Len(parts) = 1 THEN parts[1]
  ELSE parts[1] \o d \o JoinWith(d, Tail(parts))
TextJoin(dl, ig, args) ==      \* (delimiter, ignore_empty, text...)
  LET xs == AllItems(args)
      fe == FirstErr(<<dl, ig>> \o xs)
      l == AsLogical(ig)
      parts == [i \in 1..Len(xs) |-> TextOf(xs[i])]
  IN IF fe.k = "e" THEN fe
     ELSE IF l.k = "e" THEN l
     ELSE Txt(JoinWith(TextOf(dl), IF l.b THEN SelectSeq(parts, LAMBDA p : p # <<>>) ELSE parts))

=============================================================================
