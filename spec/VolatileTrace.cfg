CONSTANTS
  Sites = {"s1"}
  MaxEpoch = 1
  FreezeOnModelCompile = TRUE
SPECIFICATION TSpec
POSTCONDITION Consumed
CHECK_DEADLOCK FALSE
