------------------------------- MODULE Lookup -------------------------------
(* C19 - MATCH / INDEX / LOOKUP family and the criteria functions.          *)
(*                                                                          *)
(* Ideal: Match(key, vec, mode) on the elements of the key's own type       *)
(*   mode 0   first position equal to the key (text ignoring case; ? * ~    *)
(*            wild cards when the key is text)                              *)
(*   mode 1   last position not greater than the key (ascending data)       *)
(*   mode -1  last position not smaller than the key (descending data)      *)
(*   #N/A when there is none.                                               *)
(* Implementation-shaped: MatchScan - the linear scans of look.py xmatch    *)
(* with their early exits, over the (index, element) pairs of the key's     *)
(* type.  ScanRefinesMatch: both agree on every vector of the bounded pool. *)
(* CountIf / SumIf: exactly the elements of the operand's type that satisfy *)
(* the comparison.                                                          *)
EXTENDS XlOpsDef

NA == Err("NA")
TypeOf(v) == CASE v.k = "n" -> 0 [] v.k = "t" -> 1 [] v.k = "b" -> 2 [] OTHER -> 3

\* ---- wild cards: ? any one character, * any run, ~ escapes the next ? * ~ -------
RECURSIVE WMatch(_, _)
WMatch(p, s) ==     \* both upper-cased code sequences
  IF p = <<>> THEN s = <<>>
  ELSE IF Head(p) = 126 /\ Len(p) >= 2 /\ p[2] \in {42, 63, 126} THEN
     s # <<>> /\ Head(s) = p[2] /\ WMatch(SubSeq(p, 3, Len(p)), Tail(s))
  ELSE IF Head(p) = 42 THEN
     WMatch(Tail(p), s) \/ (s # <<>> /\ WMatch(p, Tail(s)))
  ELSE IF Head(p) = 63 THEN s # <<>> /\ WMatch(Tail(p), Tail(s))
  ELSE s # <<>> /\ Head(s) = Head(p) /\ WMatch(Tail(p), Tail(s))
HasWild(p) == \E i \in 1..Len(p) : p[i] \in {42, 63, 126}

Cmp(a, b) == Cmp3(a, b)        \* XlOpsDef: numbers by value, text ignoring case, FALSE < TRUE
Equal0(key, x) ==
  IF key.k = "t" /\ HasWild(key.s) THEN WMatch(UpperS(key.s), UpperS(x.s)) ELSE Cmp(x, key) = 0

SameIdx(key, vec) == {i \in 1..Len(vec) : TypeOf(vec[i]) = TypeOf(key)}
MinS(S) == CHOOSE x \in S : \A y \in S : x <= y
MaxS(S) == CHOOSE x \in S : \A y \in S : x >= y

Match(key, vec, mode) ==
  LET I == SameIdx(key, vec)
      H == CASE mode = 0 -> {i \in I : Equal0(key, vec[i])}
             [] mode = 1 -> {i \in I : Cmp(vec[i], key) <= 0}
             [] mode = -1 -> {i \in I : Cmp(vec[i], key) >= 0}
  IN IF H = {} THEN NA ELSE IntV(IF mode = 0 THEN MinS(H) ELSE MaxS(H))

\* ---- the scans of xmatch ------------------------------------------------------------
\* pairs: the (position, element) pairs of the key's type, in order
RECURSIVE PairsOf(_, _, _)
PairsOf(key, vec, i) ==
  IF i > Len(vec) THEN <<>>
  ELSE (IF TypeOf(vec[i]) = TypeOf(key) THEN <<<<i, vec[i]>>>> ELSE <<>>) \o PairsOf(key, vec, i + 1)

RECURSIVE ScanUp(_, _, _), ScanDown(_, _, _), ScanWild(_, _)
ScanUp(ps, key, r) ==         \* match_type > 0
  IF ps = <<>> THEN r
  ELSE LET j == ps[1][1]  x == ps[1][2]
       IN IF Cmp(x, key) <= 0 THEN
             (IF Cmp(x, key) = 0 /\ j > 1 THEN IntV(j) ELSE ScanUp(Tail(ps), key, IntV(j)))
          ELSE IF j > 1 THEN r ELSE ScanUp(Tail(ps), key, r)
ScanDown(ps, key, r) ==       \* match_type < 0
  IF ps = <<>> THEN r
  ELSE LET j == ps[1][1]  x == ps[1][2]
       IN IF Cmp(x, key) < 0 THEN r
          ELSE IF Cmp(x, key) = 0 THEN IntV(j) ELSE ScanDown(Tail(ps), key, IntV(j))
ScanWild(ps, key) ==
  IF ps = <<>> THEN NA
  ELSE IF WMatch(UpperS(key.s), UpperS(ps[1][2].s)) THEN IntV(ps[1][1]) ELSE ScanWild(Tail(ps), key)
RECURSIVE ScanEq(_, _)
ScanEq(ps, key) ==
  IF ps = <<>> THEN NA
  ELSE IF Cmp(ps[1][2], key) = 0 THEN IntV(ps[1][1]) ELSE ScanEq(Tail(ps), key)

MatchScan(key, vec, mode) ==
  LET ps == PairsOf(key, vec, 1)
  IN CASE mode > 0 -> ScanUp(ps, key, NA)
       [] mode < 0 -> ScanDown(ps, key, NA)
       [] OTHER -> IF key.k = "t" /\ HasWild(key.s) THEN ScanWild(ps, key) ELSE ScanEq(ps, key)

\* ---- criteria -----------------------------------------------------------------------------
Holds(op, x, operand) ==
  /\ TypeOf(x) = TypeOf(operand)
  /\ IF op = "=" /\ operand.k = "t" /\ HasWild(operand.s)
     THEN WMatch(UpperS(operand.s), UpperS(x.s))
     ELSE CmpHolds(op, Cmp(x, operand))
RECURSIVE CountIf(_, _, _), SumIf(_, _, _, _)
CountIf(vec, op, operand) ==
  IF vec = <<>> THEN 0 ELSE (IF Holds(op, Head(vec), operand) THEN 1 ELSE 0) + CountIf(Tail(vec), op, operand)
SumIf(vec, op, operand, sums) ==    \* sums: the operating range (numbers counted, others skipped)
  IF vec = <<>> THEN Zero
  ELSE LET rest == SumIf(Tail(vec), op, operand, Tail(sums))
       IN IF Holds(op, Head(vec), operand) /\ Head(sums).k = "n" THEN NAdd(Head(sums), rest) ELSE rest

-----------------------------------------------------------------------------
\* pools
Nums == <<IntV(1), IntV(2), IntV(3), IntV(5)>>
Txts == <<Txt(<<97>>), Txt(<<66>>), Txt(<<99, 100>>), Txt(<<120>>)>>      \* "a" "B" "cd" "x"
Others == {Bool(TRUE), Blank, Bool(FALSE)}
Keys == {IntV(0), IntV(1), IntV(2), Num(5, 2), IntV(3), IntV(4), IntV(9),
         Txt(<<97>>), Txt(<<65>>), Txt(<<98>>), Txt(<<99, 100>>), Txt(<<122>>),
         Txt(<<99, 42>>), Txt(<<63>>), Txt(<<42>>), Txt(<<126, 42>>), Bool(TRUE)}
CONSTANTS EmitObl, MaxLen

VARIABLES kind, key, vec, mode, res
vars == <<kind, key, vec, mode, res>>
Pending == [k |-> "pending"]

\* strictly monotone sub-sequences of a pool, as index sets turned into sequences
SubSeqs(P) == {S \in SUBSET (1..Len(P)) : S # {} /\ Cardinality(S) <= MaxLen}
RECURSIVE AscOf(_, _, _)
AscOf(P, S, i) == IF i > Len(P) THEN <<>> ELSE (IF i \in S THEN <<P[i]>> ELSE <<>>) \o AscOf(P, S, i + 1)
Rev(s) == [i \in 1..Len(s) |-> s[Len(s) + 1 - i]]
\* one element of another type inserted at a position
InsertAt(s, x, p) == SubSeq(s, 1, p - 1) \o <<x>> \o SubSeq(s, p, Len(s))
Sorted == {AscOf(Nums, S, 1) : S \in SubSeqs(Nums)} \cup {AscOf(Txts, S, 1) : S \in SubSeqs(Txts)}
Mixed == UNION {{InsertAt(s, x, p) : x \in Others, p \in 1..(Len(s) + 1)} : s \in {t \in Sorted : Len(t) < MaxLen}}
Pool5 == <<IntV(1), IntV(2), Txt(<<97>>), Txt(<<65>>), Txt(<<99, 100>>), Bool(TRUE), Blank>>
Arbitrary == UNION {[1..n -> {Pool5[i] : i \in 1..Len(Pool5)}] : n \in 1..3}
Pool6 == {Txt(<<53>>), Txt(<<49, 48>>), Txt(<<98>>), IntV(7), Txt(<<97>>)}        \* "5" "10" "b" 7 "a"
\* texts of every length 0..4 against criteria with adjacent wild cards
WildTxts == {Txt(<<>>), Txt(<<97>>), Txt(<<97, 98>>), Txt(<<97, 98, 99>>), Txt(<<97, 98, 99, 100>>), Txt(<<98, 97>>), IntV(7),
             Blank, Txt(<<101, 109, 112, 116, 121>>)}                  \* a blank, and the text "empty"
WildVecs == UNION {[1..n -> WildTxts] : n \in 1..2} \cup {<<Txt(<<>>), Txt(<<97>>), Txt(<<97, 98>>), Txt(<<97, 98, 99>>), Txt(<<97, 98, 99, 100>>)>>}
WildKeys == {Txt(<<97, 63, 63>>), Txt(<<63, 63>>), Txt(<<63, 42>>), Txt(<<42, 63>>), Txt(<<97, 63>>), Txt(<<97, 42>>),
             Txt(<<42, 42>>), Txt(<<97, 126, 63>>), Txt(<<63, 98, 63>>), Txt(<<97, 63, 63, 100>>), Txt(<<63, 63, 63>>),
             Txt(<<63, 63, 63, 63, 63>>), Txt(<<101, 42>>), Txt(<<42>>)}
NumTextVecs == {v \in UNION {[1..n -> Pool6] : n \in 2..3} :
                  \E i \in 1..Len(v) : v[i] \in {Txt(<<53>>), Txt(<<49, 48>>)}}

Init ==
  /\ res = Pending
  /\ \/ /\ kind = "match" /\ mode = 1 /\ key \in Keys
        /\ vec \in Sorted \cup {m \in Mixed : Len(m) <= MaxLen}
     \/ /\ kind = "match" /\ mode = -1 /\ key \in Keys
        /\ vec \in {Rev(s) : s \in Sorted}
     \/ /\ kind = "match" /\ mode = 0 /\ key \in Keys /\ vec \in Arbitrary
     \/ /\ kind = "index" /\ mode = 0 /\ key = Blank
        /\ vec \in [1..4 -> 0..7] /\ vec[1] \in 1..6 /\ vec[2] \in 1..6   \* <<R, C, r, c>>
     \* a table of R x C cells whose key line holds 2, 4, .., looked up by VLOOKUP / HLOOKUP
     \/ /\ kind = "table" /\ mode \in {0, 1}
        /\ vec \in [1..3 -> 0..7] /\ vec[1] \in 1..6 /\ vec[2] \in 1..6 /\ vec[3] \in 1..7  \* <<R, C, col>>
        /\ key \in {IntV(k) : k \in 0..(2 * vec[1] + 1)}
     \/ /\ kind = "countif" /\ mode \in 1..6 /\ key \in {IntV(1), IntV(2), Txt(<<97>>), Txt(<<99, 42>>), Bool(TRUE)}
        /\ vec \in Arbitrary
     \* text criteria over vectors that also hold text that looks like a number ("5", "10"):
     \* it is text, compared as text
     \/ /\ kind = "countif" /\ mode \in 1..6 /\ key \in {Txt(<<97>>), Txt(<<99>>), Txt(<<99, 42>>)}
        /\ vec \in NumTextVecs
     \/ /\ kind = "countif" /\ mode \in 1..2 /\ key \in WildKeys /\ vec \in WildVecs

OpOf(m) == <<"=", "<>", "<", "<=", ">", ">=">>[m]

\* INDEX(array R x C, r, c): 0 selects the whole row / column; outside is #REF!
Index(R, C, r, c) ==
  IF r > R \/ c > C THEN [k |-> "ref"]
  ELSE IF r = 0 /\ c = 0 THEN [k |-> "all"]
  ELSE IF r = 0 THEN [k |-> "col", j |-> c]
  ELSE IF c = 0 THEN [k |-> "row", i |-> r]
  ELSE [k |-> "elem", i |-> r, j |-> c]

\* the key line of a table with n entries, and the look-up of a key in it
KeyLine(n) == [i \in 1..n |-> IntV(2 * i)]
\* VLOOKUP(key, table, col, mode): INDEX of MATCH on the key line, #REF! past the table.
\* (no match and a column past the table at once: which error is reported is not defined here)
TableLookup(k, R, C, col, m) ==
  LET pos == Match(k, KeyLine(R), m)
  IN IF pos.k = "e" /\ col > C THEN [k |-> "errs"]
     ELSE IF pos.k = "e" THEN [k |-> "na"]
     ELSE IF col > C THEN [k |-> "ref"]
     ELSE [k |-> "elem", i |-> pos.n, j |-> col]

Apply ==
  /\ res = Pending
  /\ res' = IF kind = "match" THEN MatchScan(key, vec, mode)
            ELSE IF kind = "table" THEN TableLookup(key, vec[1], vec[2], vec[3], mode)
            ELSE IF kind = "index" THEN Index(vec[1], vec[2], vec[3], vec[4])
            ELSE IntV(CountIf(vec, OpOf(mode), key))
  /\ UNCHANGED <<kind, key, vec, mode>>
Next == Apply
Spec == Init /\ [][Next]_vars
Done == res # Pending

ScanRefinesMatch == (Done /\ kind = "match") => res = Match(key, vec, mode)
\* a table look-up lands on the row whose key is the largest one not above the key
TableRow == (Done /\ kind = "table" /\ res.k = "elem") =>
   /\ 2 * res.i <= key.n
   /\ (mode = 0 => 2 * res.i = key.n)
   /\ (mode = 1 => (res.i = vec[1] \/ 2 * (res.i + 1) > key.n))
\* a count of one criterion and of its negation make up the elements of the type
CriteriaPartition ==
  (Done /\ kind = "countif" /\ mode = 3 /\ ~(key.k = "t" /\ HasWild(key.s))) =>
     res.n + CountIf(vec, ">=", key) = Cardinality(SameIdx(key, vec))

Obl == (EmitObl /\ Done) => PrintT("OBL " \o ToJson(
   [kind |-> kind, key |-> key, vec |-> vec, mode |-> mode,
    exp |-> IF kind = "match" THEN Match(key, vec, mode) ELSE res,
    hold |-> IF kind = "countif" THEN {i \in 1..Len(vec) : Holds(OpOf(mode), vec[i], key)} ELSE {},
    \* "<>" on an element of another type: Excel counts it, the property compares within
    \* the type only - either answer is accepted for those positions
    dc |-> IF kind = "countif" /\ OpOf(mode) = "<>"
           THEN {i \in 1..Len(vec) : TypeOf(vec[i]) # TypeOf(key)} ELSE {}]))
=============================================================================
