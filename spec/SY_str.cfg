SPECIFICATION Spec
CONSTANTS
  Alphabet <- StrAlphabet
  MaxLen = 6
  EmitObl = TRUE
INVARIANT TypeOK
INVARIANT Agree
INVARIANT RpnIsPostOrder
INVARIANT RenderFix
INVARIANT RedundantParens
INVARIANT Obl
CHECK_DEADLOCK FALSE
