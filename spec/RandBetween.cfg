CONSTANTS
  EmitObl = TRUE
  K = 8
SPECIFICATION Spec
INVARIANT InBounds
INVARIANT NumIffEmpty
INVARIANT Ends
INVARIANT Obl
CHECK_DEADLOCK FALSE
