SPECIFICATION Spec
INVARIANT ClassicInverse
CHECK_DEADLOCK FALSE
