------------------------------- MODULE NumLit -------------------------------
(* C18 - numeric literals.  The state space is the prefix tree of character *)
(* strings over a small alphabet; in every state the implementation-shaped  *)
(* recogniser (the parser's Number regular expression, as an automaton) is  *)
(* compared with the definition of a literal, and the literal's value is    *)
(* the one XlValue!ParseNumber assigns.                                      *)
(*   literal  ::=  ( D+ [ "." D+ ] | "." D+ ) [ "E" ("+"|"-") D+ ]           *)
EXTENDS XlValue, Json

CONSTANTS Chars, MaxLen        \* character codes; bound on the length

\* ---- definition ----------------------------------------------------------
RECURSIVE AllDigits(_)
AllDigits(s) == s = <<>> \/ (IsDigit(Head(s)) /\ AllDigits(Tail(s)))

IndexOf(s, c) == IF \E i \in 1..Len(s) : s[i] = c
                 THEN CHOOSE i \in 1..Len(s) : s[i] = c /\ \A j \in 1..(i - 1) : s[j] # c
                 ELSE 0

IsMantissa(m) ==
  LET d == IndexOf(m, 46)
  IN IF d = 0 THEN m # <<>> /\ AllDigits(m)
     ELSE LET ip == SubSeq(m, 1, d - 1)  fp == SubSeq(m, d + 1, Len(m))
          IN AllDigits(ip) /\ fp # <<>> /\ AllDigits(fp)

IsExponent(x) == Len(x) >= 2 /\ x[1] \in {43, 45} /\ AllDigits(Tail(x))

IsLiteral(s) ==
  LET e == IndexOf(s, 69)
  IN IF e = 0 THEN IsMantissa(s)
     ELSE IsMantissa(SubSeq(s, 1, e - 1)) /\ IsExponent(SubSeq(s, e + 1, Len(s)))

\* ---- the regular expression as an automaton -------------------------------
\* states: "start" "int" "dot" "frac" "E" "sign" "exp" "dead"
Delta(q, c) ==
  CASE q = "start" -> IF IsDigit(c) THEN "int" ELSE IF c = 46 THEN "dot" ELSE "dead"
    [] q = "int"   -> IF IsDigit(c) THEN "int" ELSE IF c = 46 THEN "dot"
                      ELSE IF c = 69 THEN "E" ELSE "dead"
    [] q = "dot"   -> IF IsDigit(c) THEN "frac" ELSE "dead"
    [] q = "frac"  -> IF IsDigit(c) THEN "frac" ELSE IF c = 69 THEN "E" ELSE "dead"
    [] q = "E"     -> IF c \in {43, 45} THEN "sign" ELSE "dead"
    [] q = "sign"  -> IF IsDigit(c) THEN "exp" ELSE "dead"
    [] q = "exp"   -> IF IsDigit(c) THEN "exp" ELSE "dead"
    [] OTHER -> "dead"
Accepting == {"int", "frac", "exp"}

VARIABLES s, q
vars == <<s, q>>
Init == s = <<>> /\ q = "start"
Next == \E c \in Chars : /\ Len(s) < MaxLen /\ q # "dead"
                         /\ s' = Append(s, c) /\ q' = Delta(q, c)
Spec == Init /\ [][Next]_vars

AutomatonIsDefinition == (q \in Accepting) = IsLiteral(s)

\* a literal has a numeric value, and it is a non-negative number
LiteralHasValue ==
  IsLiteral(s) => LET v == ParseNumber(s) IN v # NotNumeric /\ v.k = "n" /\ v.n >= 0

\* leading zeros do not change the value
LeadingZero ==
  (IsLiteral(s) /\ Len(s) < MaxLen /\ IsDigit(s[1])) => ParseNumber(<<48>> \o s) = ParseNumber(s)

Obl == (IsLiteral(s)) =>
         PrintT("OBL " \o ToJson([s |-> s, v |-> ParseNumber(s)]))
=============================================================================
