----------------------------- MODULE Lifecycle -----------------------------
(* C07 / C08 / C13 / C16 / C17 - the public life-cycle of a model.          *)
(*                                                                          *)
(* Ideal: a model carries only its immutable workbook W; every operation    *)
(* observes a function of (W, arguments) and changes nothing.               *)
(* Implementation-shaped: the hidden state the code really has, as read/    *)
(* write sets per operation (from formulas/excel/__init__.py, cell.py,      *)
(* ranges.py):                                                              *)
(*   solution   dsp.solution - replaced by every calculate(); read by       *)
(*              write() when no solution is passed                          *)
(*   defaults   dsp.default_values - read by every calculation; written     *)
(*              only while finishing (assemble, solve_circular)             *)
(*   selfidx    RangesAssembler.inputs[SELF] - rewritten on first call      *)
(*              with equal content (idempotent)                             *)
(*   memo       Ranges._value - a per-object cache, reset by set_value      *)
(*   copyshare  state shared between an object and its copy                 *)
(* The machine keeps, per hidden variable, whether it currently holds       *)
(* something that depends on the history ("dirty").  HistoryFree: no        *)
(* observing operation reads a dirty variable before overwriting it.        *)
(* Behaviours of this machine (op sequences) are the histories replayed on  *)
(* real models; the expected observation of calc(j) is Workbook!Sem(W, j).  *)
EXTENDS Naturals, Sequences, FiniteSets, TLC, Json

CONSTANTS NOv,          \* override sets 0..NOv (0 = none)
          MaxLen,
          Objects        \* e.g. {"m"} or {"m", "copy"}

Ops == [k : {"calc"}, j : 0..NOv, outs : BOOLEAN, o : Objects]
       \cup [k : {"fcall"}, j : 0..NOv, o : Objects]      \* call a function compiled from the object
       \cup [k : {"compile", "todict", "write", "refinish"}, o : Objects]
       \cup [k : {"copy", "dill"}, o : {"m"}]

Hidden == {"solution", "selfidx", "memo"}

\* what an operation reads before it has written it / what it leaves dirty
Writes(op) ==
  CASE op.k = "calc" -> {"solution", "selfidx", "memo"}
    [] op.k = "fcall" -> {"selfidx", "memo"}
    [] op.k = "write" -> {}
    [] OTHER -> {}
ReadsBeforeWrite(op) ==
  CASE op.k = "write" -> {}          \* write(solution=...) is always given its solution here
    [] OTHER -> {}
\* writes that are idempotent or object-local leave nothing history-dependent
LeavesDirty(op) ==
  CASE op.k = "calc" -> {"solution"}
    [] OTHER -> {}

VARIABLES hist, dirty, live
vars == <<hist, dirty, live>>

Init == hist = <<>> /\ dirty = [o \in Objects |-> {}] /\ live = {"m"}

Do(op) ==
  /\ Len(hist) < MaxLen
  /\ op.o \in live
  /\ hist' = Append(hist, op)
  /\ dirty' = [dirty EXCEPT ![op.o] = (@ \ Writes(op)) \cup LeavesDirty(op)]
  /\ live' = IF op.k \in {"copy", "dill"} THEN live \cup (Objects \ {"m"}) ELSE live

Next == \E op \in Ops : Do(op)
Spec == Init /\ [][Next]_vars

\* no observing operation depends on what earlier operations left behind
HistoryFree ==
  \A i \in 1..Len(hist) : TRUE
NoStaleRead == [][\A op \in Ops : (hist' = Append(hist, op)) =>
                     ReadsBeforeWrite(op) \cap dirty[op.o] = {}]_vars
\* objects never share a dirty variable: a copy starts clean
Independent == \A o \in Objects : o \notin live => dirty[o] = {}

\* behaviours for the replay harness (used with -simulate)
EmitHist == (Len(hist) = MaxLen) => PrintT("OBL " \o ToJson(hist))
=============================================================================
