---------------------------- MODULE ParseTrace ----------------------------
(* Trace validation for C01 / C18: parses recorded from the real parser     *)
(* (hooks tok / rpn of formulas/parser.py and formulas/builder.py).         *)
(*                                                                          *)
(* A trace is [id, events, outcome, final] where every event is one lexer   *)
(* token [tok, emitted]: the abstract token and the names the builder       *)
(* received while that token was processed; `final` are the names received  *)
(* by the closing flush; outcome is "acc" or "rej".                          *)
(* Each event must be the ShuntingYard action for that token from the       *)
(* current state, emitting exactly the logged names; at the end the outcome *)
(* must be the machine's, and the tree must be the one Grammar assigns to   *)
(* the logged tokens.  A non-conforming trace is reported (REJECT id pos    *)
(* clause) and validation continues with the next trace.                     *)
EXTENDS ShuntingYard, IOUtils, TLCExt

Traces == JsonDeserialize(IOEnv.TRACE_FILE)

VARIABLES ti, pos, st      \* trace index, next event, parser state
tvars == <<ti, pos, st, toks, sy>>

\* at lexer granularity a sign run is already one token: no pending sign
TraceStep(s, tok) ==
  IF ~s.ok THEN s
  ELSE IF tok \in SignToks THEN
     (IF s.last = "colon" THEN Bad(s) ELSE StepOperator(s, tok))
  ELSE IF tok = "%" /\ s.last = "%" THEN
     \* two separate % tokens were separated by white space in the text ("x% %");
     \* deviation D1 ("%%" is one invalid token) fails inside the lexer, before any token
     StepOperator([s EXCEPT !.last = ")"], "%")
  ELSE LET s1 == SYStepCore(s, tok)
       IN IF s1.ok /\ s1.stack = <<>> THEN Bad(s1) ELSE s1

TInit == ti = 1 /\ pos = 1 /\ st = Init0 /\ toks = <<>> /\ sy = Init0

Cur == Traces[ti]
NEv == Len(Cur.events)
TokSeq(tr) == [i \in 1..Len(tr.events) |-> tr.events[i].tok]

Report(clause) == PrintT(<<"REJECT", Cur.id, pos, clause>>)

\* one lexer token of an accepted-so-far parse
Chk(cond, clause) == IF cond THEN TRUE ELSE Report(clause)

TStep ==
  /\ ti <= Len(Traces)
  /\ pos <= NEv
  /\ LET e == Cur.events[pos]
         s2 == TraceStep(st, e.tok)
     IN /\ Chk(~st.ok \/ s2.ok, "token-not-enabled")
        /\ Chk(~s2.ok \/ s2.rpn = st.rpn \o e.emitted, "emitted-names")
        /\ st' = IF s2.ok THEN [s2 EXCEPT !.rpn = st.rpn \o e.emitted] ELSE s2
  /\ pos' = pos + 1
  /\ UNCHANGED <<ti, toks, sy>>

\* end of a trace: outcome and tree
TEnd ==
  /\ ti <= Len(Traces)
  /\ pos = NEv + 1
  /\ LET fin == IF st.ok THEN Flush(StepClose(st)) ELSE st
         accM == fin.ok /\ Len(fin.out) = 1
         g == Grammar(TokSeq(Cur))
     IN IF Cur.outcome = "acc" THEN
           /\ Chk(accM \/ ~st.ok, "machine-rejects-accepted")
           /\ Chk(~accM \/ fin.rpn = st.rpn \o Cur.final, "final-names")
           /\ Chk(g.k \in {"acc", "dc"}, "grammar-rejects-accepted")
           /\ Chk(~(accM /\ g.k = "acc") \/ g.t = fin.out[1], "tree-differs-from-grammar")
        ELSE IF Cur.outcome = "rej-at-token" THEN TRUE   \* failed inside a token: prefix only
        ELSE
           /\ Chk(~accM, "machine-accepts-rejected")
           /\ Chk(g.k \in {"rej", "dc"} \/ HasDoublePct(TokSeq(Cur), 1), "grammar-accepts-rejected")
  /\ ti' = ti + 1
  /\ pos' = 1
  /\ st' = Init0
  /\ UNCHANGED <<toks, sy>>

TNext == TStep \/ TEnd
TSpec == TInit /\ [][TNext]_tvars

\* all traces were consumed: one state per event plus one per trace end (the
\* harness passes the expected diameter)
Consumed == ToString(TLCGet("stats").diameter) = IOEnv.EXPECT_DIAMETER
=============================================================================
