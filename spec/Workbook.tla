----------------------------- MODULE Workbook -----------------------------
(* C03 / C07 / C08 / C14 / C15 ... - workbooks, their history-free meaning   *)
(* and one calculation as a schedule of firings.                            *)
(*                                                                          *)
(* A case (read from JSON, file IOEnv.WB_FILE, a sequence of cases) is      *)
(*   cells  id |-> cell      cell = [k |-> "c", v]           constant       *)
(*                                  [k |-> "f", e]           formula        *)
(*                                  [k |-> "af", e, r, c]    array formula  *)
(*                                                 anchored here, r x c     *)
(*                                  [k |-> "sp", anchor, i, j] cell (i, j)  *)
(*                                                 of that array formula    *)
(*   names  name |-> expression (a reference or a range)                    *)
(*   ov     id / name |-> value   supplied inputs (overrides)               *)
(* Expressions (tuples):  <<"c", v>>  <<"ref", id>>  <<"rng", rows of ids>> *)
(*   <<"name", n>>  <<"op", o, e1, e2>>  <<"un", o, e>>  <<"fn", f, args>>  *)
(*   <<"miss", what>>   an unresolvable item (C14): what is "fn" (unknown   *)
(*                      function -> #NAME?) or "ref" (missing book, sheet   *)
(*                      or name -> #REF!)                                   *)
(* Geometry is resolved by the generator: a range is the matrix of its cell *)
(* ids; an id that is not in `cells` is an unpopulated cell (blank).        *)
EXTENDS XlArrayDef, TLCExt

Cases == JsonDeserialize(IOEnv.WB_FILE)

\* ---- evaluation of an expression under a valuation v (id |-> value) ------
Look(v, id) == IF id \in DOMAIN v THEN v[id] ELSE Blank

IsRangeExpr(W, e) ==
  \/ e[1] = "rng"
  \/ e[1] = "name" /\ W.names[e[2]][1] = "rng"

RECURSIVE Ev(_, _, _)

\* the values a reference argument denotes, row-major
RangeMatrix(W, v, e) ==
  LET r == IF e[1] = "name" THEN W.names[e[2]] ELSE e
  IN IF r[1] = "ref" THEN Arr(<<<<Look(v, r[2])>>>>)
     ELSE Arr([i \in 1..Len(r[2]) |-> [j \in 1..Len(r[2][i]) |-> Look(v, r[2][i][j])]])

Flatten(a) ==    \* row-major sequence of the elements of an array value
  LET R == Rows(a)  C == Cols(a)
  IN [k \in 1..(R * C) |-> a.rows[((k - 1) \div C) + 1][((k - 1) % C) + 1]]

IsRefArg(W, e) == e[1] \in {"ref", "rng"} \/ (e[1] = "name")

\* first error of a sequence of scalars, or a non-error marker
RECURSIVE FirstErr(_)
FirstErr(s) == IF s = <<>> THEN [k |-> "none"]
               ELSE IF Head(s).k \in {"e", "any"} THEN Head(s) ELSE FirstErr(Tail(s))

RECURSIVE SumNums(_)
SumNums(s) == IF s = <<>> THEN Zero
              ELSE IF Head(s).k = "n" THEN NAdd(Head(s), SumNums(Tail(s))) ELSE SumNums(Tail(s))
RECURSIVE CountNums(_)
CountNums(s) == IF s = <<>> THEN 0 ELSE (IF Head(s).k = "n" THEN 1 ELSE 0) + CountNums(Tail(s))
RECURSIVE MaxNums(_, _)
MaxNums(s, best) ==
  IF s = <<>> THEN best
  ELSE IF Head(s).k = "n" /\ (best.k # "n" \/ NCmp(Head(s), best) > 0)
       THEN MaxNums(Tail(s), Head(s)) ELSE MaxNums(Tail(s), best)
RECURSIVE MinNums(_, _)
MinNums(s, best) ==
  IF s = <<>> THEN best
  ELSE IF Head(s).k = "n" /\ (best.k # "n" \/ NCmp(Head(s), best) < 0)
       THEN MinNums(Tail(s), Head(s)) ELSE MinNums(Tail(s), best)

\* the countable values of one argument: a referenced argument contributes its
\* numbers only (logicals, text and blanks are skipped); a directly typed one
\* is coerced (logicals and numeric text count, other text is #VALUE!)
ArgScalars(W, v, e) ==
  IF IsRefArg(W, e) THEN Flatten(RangeMatrix(W, v, e))
  ELSE LET x == Ev(W, v, e)
       IN IF x.k = "a" THEN Flatten(x)
          ELSE IF x.k \in {"b", "t"} THEN <<Coerce(x)>>
          ELSE <<x>>

RECURSIVE AllScalars(_, _, _)
AllScalars(W, v, args) ==
  IF args = <<>> THEN <<>> ELSE ArgScalars(W, v, Head(args)) \o AllScalars(W, v, Tail(args))

Truth(x) ==   \* condition of IF: TRUE / FALSE / error value (possibly one of several)
  CASE x.k \in {"e", "any"} -> x
    [] x.k = "b" -> x
    [] x.k = "n" -> Bool(x.n # 0)
    [] x.k = "z" -> Bool(FALSE)
    [] x.k = "t" -> Err("VALUE")

Scalar(x) == IF x.k = "a" THEN x.rows[1][1] ELSE x   \* a cell shows the top-left element
IsErrLike(x) == x.k = "e" \/ x.k = "any"             \* an error value (possibly one of several)

Ev(W, v, e) ==
  CASE e[1] = "c" -> e[2]
    [] e[1] = "ref" -> Look(v, e[2])
    [] e[1] = "rng" -> RangeMatrix(W, v, e)
    [] e[1] = "name" -> (LET r == W.names[e[2]]
                         IN IF r[1] = "ref" THEN Look(v, r[2]) ELSE RangeMatrix(W, v, r))
    [] e[1] = "miss" -> (IF e[2] = "fn" THEN Err("NAME")
                         ELSE IF e[2] = "name" THEN AnyOf(<<Err("REF"), Err("NAME")>>)
                         ELSE Err("REF"))
    [] e[1] = "op" -> Lift2(e[2], Ev(W, v, e[3]), Ev(W, v, e[4]))
    [] e[1] = "un" -> Lift1(e[2], Ev(W, v, e[3]))
    [] e[1] = "fn" ->
         (LET f == e[2]  args == e[3]
          IN CASE f \in {"SUM", "MAX", "MIN", "COUNT"} ->
                    (LET s == AllScalars(W, v, args)
                         er == FirstErr(s)
                     IN IF f = "COUNT" THEN IntV(CountNums(s))
                        ELSE IF er.k \in {"e", "any"} THEN er
                        ELSE IF f = "SUM" THEN SumNums(s)
                        ELSE LET m == IF f = "MAX" THEN MaxNums(s, [k |-> "none"]) ELSE MinNums(s, [k |-> "none"])
                             IN IF m.k = "n" THEN m ELSE Zero)
               [] f = "IF" ->
                    (LET c == Truth(Scalar(Ev(W, v, args[1])))
                     IN IF IsErrLike(c) THEN c
                        ELSE IF c.b THEN Ev(W, v, args[2]) ELSE Ev(W, v, args[3]))
               [] f = "IFERROR" ->
                    (LET x == Scalar(Ev(W, v, args[1]))
                     IN IF IsErrLike(x) THEN Ev(W, v, args[2]) ELSE x)
               [] f = "ISERROR" -> Bool(IsErrLike(Scalar(Ev(W, v, args[1]))))
               [] f = "ISNUMBER" -> Bool(Scalar(Ev(W, v, args[1])).k = "n"))

\* a formula cell shows a blank result as 0
CellShow(x) == LET s == Scalar(x) IN IF s.k = "z" THEN Zero ELSE s

\* ---- dependencies ----------------------------------------------------------
RECURSIVE ExprIds(_, _), ArgsIds(_, _)
ArgsIds(W, args) == IF args = <<>> THEN {} ELSE ExprIds(W, Head(args)) \cup ArgsIds(W, Tail(args))
ExprIds(W, e) ==
  CASE e[1] = "c" -> {}
    [] e[1] = "miss" -> {}
    [] e[1] = "ref" -> {e[2]}
    [] e[1] = "rng" -> UNION {{e[2][i][j] : j \in 1..Len(e[2][i])} : i \in 1..Len(e[2])}
    [] e[1] = "name" -> ExprIds(W, W.names[e[2]])
    [] e[1] = "op" -> ExprIds(W, e[3]) \cup ExprIds(W, e[4])
    [] e[1] = "un" -> ExprIds(W, e[3])
    [] e[1] = "fn" -> ArgsIds(W, e[3])

CellIds(W) == DOMAIN W.cells
Populated(W, id) == id \in CellIds(W)

Deps(W, id) ==
  LET c == W.cells[id]
  IN CASE c.k = "c" -> {}
       [] c.k = "sp" -> {c.anchor}
       [] OTHER -> {d \in ExprIds(W, c.e) : Populated(W, d)}

\* a formula that uses an unimplemented function evaluates, as a whole, to #NAME?
RECURSIVE HasMissFn(_), AnyMissFn(_)
AnyMissFn(args) == IF args = <<>> THEN FALSE ELSE HasMissFn(Head(args)) \/ AnyMissFn(Tail(args))
HasMissFn(e) ==
  CASE e[1] = "miss" -> e[2] = "fn"
    [] e[1] = "op" -> HasMissFn(e[3]) \/ HasMissFn(e[4])
    [] e[1] = "un" -> HasMissFn(e[3])
    [] e[1] = "fn" -> AnyMissFn(e[3])
    [] OTHER -> FALSE

\* ---- one evaluation step of a cell under a valuation ---------------------------
EvalCell(W, v, id) ==
  LET c == W.cells[id]
  IN CASE c.k = "c" -> c.v
       [] c.k = "f" -> (IF HasMissFn(c.e) THEN Err("NAME") ELSE CellShow(Ev(W, v, c.e)))
       [] c.k = "af" -> CellShow(Fit(Ev(W, v, c.e), c.r, c.c))
       [] c.k = "sp" -> (LET a == W.cells[c.anchor]
                             x == Fit(Ev(W, v, a.e), a.r, a.c).rows[c.i][c.j]
                         IN IF x.k = "z" THEN Zero ELSE x)

\* overrides: the supplied values, with names forwarded to the cell they denote
OvIds(W) ==
  {k \in DOMAIN W.ov : k \in CellIds(W)} \cup
  {W.names[k][2] : k \in {n \in DOMAIN W.ov : n \in DOMAIN W.names /\ W.names[n][1] = "ref"}}
OvValue(W, id) ==
  IF id \in DOMAIN W.ov THEN W.ov[id]
  ELSE LET n == CHOOSE n \in DOMAIN W.ov : n \in DOMAIN W.names /\ W.names[n] = <<"ref", id>>
       IN W.ov[n]
\* sp cells read the anchor's *formula*, so an overridden anchor does not stop them

Base(W) ==     \* the valuation a calculation starts from: constants and supplied inputs
  LET S == {id \in CellIds(W) : W.cells[id].k = "c"} \cup OvIds(W) \cup
           {id \in DOMAIN W.ov : id \notin DOMAIN W.names}
  IN [id \in S |-> IF id \in OvIds(W) \/ id \in DOMAIN W.ov THEN OvValue(W, id) ELSE W.cells[id].v]

Fireable(W, v, id) ==
  /\ id \in CellIds(W) /\ id \notin DOMAIN v
  /\ W.cells[id].k # "c"
  /\ \A d \in Deps(W, id) : d \in DOMAIN v \/ (W.cells[id].k = "sp")
  /\ (W.cells[id].k = "sp" =>
        \A d \in Deps(W, W.cells[id].anchor) : d \in DOMAIN v)

Extend(v, id, x) == [k \in DOMAIN v \cup {id} |-> IF k = id THEN x ELSE v[k]]

\* ---- the history-free meaning: maximal parallel rounds until nothing fires ----
RECURSIVE Fix(_, _)
Fix(W, v) ==
  LET F == {id \in CellIds(W) : Fireable(W, v, id)}
  IN IF F = {} THEN v
     ELSE Fix(W, [k \in DOMAIN v \cup F |-> IF k \in F THEN EvalCell(W, v, k) ELSE v[k]])
Sem(W) == Fix(W, Base(W))

-----------------------------------------------------------------------------
\* ---- Calc: one calculation as a schedule of firings ----------------------------
VARIABLES w, val
cvars == <<w, val>>

CInit == /\ w \in 1..Len(Cases)
         /\ val = Base(Cases[w])

Fire(id) == /\ Fireable(Cases[w], val, id)
            /\ val' = Extend(val, id, EvalCell(Cases[w], val, id))
            /\ UNCHANGED w

CNext == \E id \in CellIds(Cases[w]) : Fire(id)
CSpec == CInit /\ [][CNext]_cvars

\* every value a schedule has produced so far is the history-free meaning
Partial == \A id \in DOMAIN val : val[id] = Sem(Cases[w])[id]
\* a calculation that cannot continue has valued every cell (acyclic workbooks)
Quiescent == \A id \in CellIds(Cases[w]) : ~Fireable(Cases[w], val, id)
FixedPoint == Quiescent => \A id \in CellIds(Cases[w]) : id \in DOMAIN val
\* an overridden cell keeps the supplied value: its formula is never fired
NoFireOverridden == \A id \in OvIds(Cases[w]) : val[id] = OvValue(Cases[w], id)
\* a firing never changes a value that is already there
FireOnce == [][\A id \in DOMAIN val : id \in DOMAIN val' /\ val'[id] = val[id]]_cvars


-----------------------------------------------------------------------------
\* ---- C08: ExcelModel.compile(inputs, outputs) --------------------------------
\* The compiled function pre-evaluates, without the inputs, everything that can
\* be evaluated, freezes those values, and later evaluates the rest from the
\* frozen values and the arguments.
CONSTANT SelfPath   \* TRUE: as the code does, a range reads its unpopulated member
                    \* cells from the running solution with no dependency edge;
                    \* FALSE: an unpopulated input cell is a dependency like any other
Ins(W) == {k \in DOMAIN W.ov : k # "_NONE_"}
DependsOnInput(W, id) ==
  LET c == W.cells[id]
  IN c.k \in {"f", "af"} /\ \E d \in ExprIds(W, c.e) : d \in Ins(W) /\ (~SelfPath \/ Populated(W, d))

PreFireable(W, v, id) == Fireable(W, v, id) /\ ~DependsOnInput(W, id)
                         /\ (W.cells[id].k = "sp" => ~DependsOnInput(W, W.cells[id].anchor))
RECURSIVE PreFix(_, _)
PreFix(W, v) ==
  LET F == {id \in CellIds(W) : PreFireable(W, v, id)}
  IN IF F = {} THEN v
     ELSE PreFix(W, [k \in DOMAIN v \cup F |-> IF k \in F THEN EvalCell(W, v, k) ELSE v[k]])
PreBase(W) ==
  LET S == {id \in CellIds(W) : W.cells[id].k = "c" /\ id \notin Ins(W)}
  IN [id \in S |-> W.cells[id].v]
Frozen(W) == PreFix(W, PreBase(W))          \* what compile() freezes
\* the compiled function applied to the arguments W.ov
Compiled(W) ==
  LET fr == Frozen(W)
      start == [id \in DOMAIN fr \cup Ins(W) |-> IF id \in Ins(W) THEN W.ov[id] ELSE fr[id]]
  IN Fix(W, start)

\* nothing frozen depends on an argument / the compiled function is the calculation
FrozenIndependent == \A id \in DOMAIN Frozen(Cases[w]) :
                        id \in Ins(Cases[w]) \/ Frozen(Cases[w])[id] = Sem(Cases[w])[id]
CompiledEqualsSem == \A id \in CellIds(Cases[w]) :
                        id \in DOMAIN Compiled(Cases[w]) /\ Compiled(Cases[w])[id] = Sem(Cases[w])[id]
\* the named deviation: an input that is an unpopulated cell of a referenced range
HasUnpopulatedInput == \E k \in Ins(Cases[w]) : ~Populated(Cases[w], k)
CompileOK == (SelfPath /\ HasUnpopulatedInput) \/ (FrozenIndependent /\ CompiledEqualsSem)

-----------------------------------------------------------------------------
\* ---- C10: circular references, by need ------------------------------------------
\* A cell can be evaluated as soon as what it *needs* is known: IF needs its
\* condition and then only the selected branch, IFERROR its value and the
\* fallback only when the value is an error; everything else needs all operands.
Known(W, v, id) == id \in DOMAIN v \/ ~Populated(W, id)
RECURSIVE NK(_, _, _), NKArgs(_, _, _)
NKArgs(W, v, args) == IF args = <<>> THEN TRUE ELSE NK(W, v, Head(args)) /\ NKArgs(W, v, Tail(args))
NK(W, v, e) ==
  CASE e[1] \in {"c", "miss"} -> TRUE
    [] e[1] = "ref" -> Known(W, v, e[2])
    [] e[1] \in {"rng", "name"} -> \A d \in ExprIds(W, e) : Known(W, v, d)
    [] e[1] = "op" -> NK(W, v, e[3]) /\ NK(W, v, e[4])
    [] e[1] = "un" -> NK(W, v, e[3])
    [] e[1] = "fn" ->
         (IF e[2] = "IF" THEN
             NK(W, v, e[3][1]) /\
             (LET c == Truth(Scalar(Ev(W, v, e[3][1])))
              IN IF IsErrLike(c) THEN TRUE ELSE NK(W, v, IF c.b THEN e[3][2] ELSE e[3][3]))
          ELSE IF e[2] = "IFERROR" THEN
             NK(W, v, e[3][1]) /\
             (IsErrLike(Scalar(Ev(W, v, e[3][1]))) => NK(W, v, e[3][2]))
          ELSE NKArgs(W, v, e[3]))

\* the ids a stuck cell is currently waiting for
RECURSIVE Waits(_, _, _), WaitsArgs(_, _, _)
WaitsArgs(W, v, args) == IF args = <<>> THEN {} ELSE Waits(W, v, Head(args)) \cup WaitsArgs(W, v, Tail(args))
Waits(W, v, e) ==
  CASE e[1] \in {"c", "miss"} -> {}
    [] e[1] \in {"ref", "rng", "name"} -> {d \in ExprIds(W, e) : ~Known(W, v, d)}
    [] e[1] = "op" -> Waits(W, v, e[3]) \cup Waits(W, v, e[4])
    [] e[1] = "un" -> Waits(W, v, e[3])
    [] e[1] = "fn" ->
         (IF e[2] = "IF" THEN
             (IF ~NK(W, v, e[3][1]) THEN Waits(W, v, e[3][1])
              ELSE LET c == Truth(Scalar(Ev(W, v, e[3][1])))
                   IN IF IsErrLike(c) THEN {} ELSE Waits(W, v, IF c.b THEN e[3][2] ELSE e[3][3]))
          ELSE IF e[2] = "IFERROR" THEN
             (IF ~NK(W, v, e[3][1]) THEN Waits(W, v, e[3][1])
              ELSE IF IsErrLike(Scalar(Ev(W, v, e[3][1]))) THEN Waits(W, v, e[3][2]) ELSE {})
          ELSE WaitsArgs(W, v, e[3]))

LFireable(W, v, id) ==
  /\ id \in CellIds(W) /\ id \notin DOMAIN v
  /\ W.cells[id].k = "f"
  /\ NK(W, v, W.cells[id].e)

RECURSIVE LFix(_, _)
LFix(W, v) ==
  LET F == {id \in CellIds(W) : LFireable(W, v, id)}
  IN IF F = {} THEN v
     ELSE LFix(W, [k \in DOMAIN v \cup F |-> IF k \in F THEN EvalCell(W, v, k) ELSE v[k]])

StuckWaits(W, v, id) == Waits(W, v, W.cells[id].e)
RECURSIVE WaitClosure(_, _, _)
WaitClosure(W, v, S) ==
  LET S2 == S \cup UNION {StuckWaits(W, v, x) : x \in S}
  IN IF S2 = S THEN S ELSE WaitClosure(W, v, S2)
\* a stuck cell that (transitively) waits for itself: an unavoidable cycle
OnCycle(W, v, id) == id \in WaitClosure(W, v, StuckWaits(W, v, id))

Circ == Err("CIRC")
\* evaluate by need; mark the cells of unavoidable cycles; go on with the mark as
\* an ordinary error value; repeat until every cell has a value
RECURSIVE LazyTotal(_, _)
LazyTotal(W, v) ==
  LET v1 == LFix(W, v)
      stuck == CellIds(W) \ DOMAIN v1
      cyc == {id \in stuck : OnCycle(W, v1, id)}
  IN IF stuck = {} \/ cyc = {} THEN v1
     ELSE LazyTotal(W, [k \in DOMAIN v1 \cup cyc |-> IF k \in cyc THEN Circ ELSE v1[k]])
LazySem(W) == LazyTotal(W, Base(W))
\* the cells that are marked (on an unavoidable cycle), for the expectation classes
RECURSIVE MarkedAcc(_, _, _)
MarkedAcc(W, v, acc) ==
  LET v1 == LFix(W, v)
      stuck == CellIds(W) \ DOMAIN v1
      cyc == {id \in stuck : OnCycle(W, v1, id)}
  IN IF stuck = {} \/ cyc = {} THEN acc
     ELSE MarkedAcc(W, [k \in DOMAIN v1 \cup cyc |-> IF k \in cyc THEN Circ ELSE v1[k]], acc \cup cyc)
Marked(W) == MarkedAcc(W, Base(W), {})

\* what the check expects of a cell: the mark itself on a cycle; downstream of a
\* cycle an error "as an error" (any error value); an ordinary value exactly
Expect(W, id) ==
  LET x == LazySem(W)[id]
  IN IF id \in Marked(W) THEN Circ
     ELSE IF x = Circ THEN AnyErr ELSE x

\* the lazy calculation machine: any order of evaluations by need
LInit == /\ w \in 1..Len(Cases) /\ val = Base(Cases[w])
LFire(id) == /\ LFireable(Cases[w], val, id)
             /\ val' = Extend(val, id, EvalCell(Cases[w], val, id))
             /\ UNCHANGED w
\* when nothing can fire, the cells of unavoidable cycles are marked at once
LMark == /\ \A id \in CellIds(Cases[w]) : ~LFireable(Cases[w], val, id)
         /\ LET cyc == {id \in CellIds(Cases[w]) \ DOMAIN val : OnCycle(Cases[w], val, id)}
            IN /\ cyc # {}
               /\ val' = [k \in DOMAIN val \cup cyc |-> IF k \in cyc THEN Circ ELSE val[k]]
         /\ UNCHANGED w
LNext == LMark \/ \E id \in CellIds(Cases[w]) : LFire(id)
LSpec == LInit /\ [][LNext]_cvars /\ WF_cvars(LNext)
\* every order agrees with LazySem; every cell ends with a value (termination)
LPartial == \A id \in DOMAIN val : val[id] = LazySem(Cases[w])[id]
LTotal == <>(\A id \in CellIds(Cases[w]) : id \in DOMAIN val)
\* cells not downstream of any cycle hold what they hold without the cyclic cells
EmitLazy ==
  /\ TLCGet("stats").distinct >= 0
  /\ JsonSerialize(IOEnv.OUT_FILE, [i \in 1..Len(Cases) |->
        [id \in CellIds(Cases[i]) |-> Expect(Cases[i], id)]])

\* the expected valuation of every case, written once for the replay harness
EmitSem ==
  /\ TLCGet("stats").distinct >= 0
  /\ JsonSerialize(IOEnv.OUT_FILE, [i \in 1..Len(Cases) |-> Sem(Cases[i])])
=============================================================================
