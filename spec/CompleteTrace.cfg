CONSTANTS
  SelfPath = TRUE
  SpillAnchors = TRUE
SPECIFICATION TSpecB
POSTCONDITION ConsumedB
CHECK_DEADLOCK FALSE
