----------------------------- MODULE XlArrayDef -----------------------------
(* C05 - array evaluation: the scalar rule lifted element-wise under Excel's *)
(* broadcasting, and the fitting of a result into a destination range.      *)
EXTENDS XlOpsDef

NA == Err("NA")

Rows(v) == IF v.k = "a" THEN Len(v.rows) ELSE 1
Cols(v) == IF v.k = "a" THEN Len(v.rows[1]) ELSE 1

\* element (i, j) of v seen as part of an R x C result: a scalar, a single row
\* or a single column stretches; positions it does not cover are #N/A
Elem(v, i, j) ==
  IF v.k # "a" THEN v
  ELSE LET m == Rows(v)  n == Cols(v)
           ii == IF m = 1 THEN 1 ELSE i
           jj == IF n = 1 THEN 1 ELSE j
       IN IF ii <= m /\ jj <= n THEN v.rows[ii][jj] ELSE NA

Matrix(R, C, f(_, _)) == Arr([i \in 1..R |-> [j \in 1..C |-> f(i, j)]])

\* a 1x1 result is the scalar itself
Unwrap(v) == IF v.k = "a" /\ Rows(v) = 1 /\ Cols(v) = 1 THEN v.rows[1][1] ELSE v

Lift1(opn, a) ==
  IF a.k # "a" THEN Un(opn, a)
  ELSE LET f(i, j) == Un(opn, a.rows[i][j]) IN Matrix(Rows(a), Cols(a), f)

Lift2(opn, a, b) ==
  IF a.k # "a" /\ b.k # "a" THEN Bin(opn, a, b)
  ELSE LET R == Max2(Rows(a), Rows(b))
           C == Max2(Cols(a), Cols(b))
           f(i, j) == Bin(opn, Elem(a, i, j), Elem(b, i, j))
       IN Matrix(R, C, f)

\* an n-ary element-wise function given as a left fold of a binary scalar rule
RECURSIVE FoldArgs(_, _, _, _, _)
FoldArgs(opn, init, args, i, j) ==
  IF args = <<>> THEN init
  ELSE Bin(opn, FoldArgs(opn, init, SubSeq(args, 1, Len(args) - 1), i, j),
                Elem(args[Len(args)], i, j))
RECURSIVE MaxOf(_)
MaxOf(s) == IF Len(s) = 1 THEN s[1] ELSE Max2(s[1], MaxOf(Tail(s)))
LiftN(opn, init, args) ==
  LET R == MaxOf([k \in 1..Len(args) |-> Rows(args[k])])
      C == MaxOf([k \in 1..Len(args) |-> Cols(args[k])])
      f(i, j) == FoldArgs(opn, init, args, i, j)
  IN IF \A k \in 1..Len(args) : args[k].k # "a" THEN f(1, 1) ELSE Matrix(R, C, f)

\* storing v into an r x c range
Fit(v, r, c) ==
  LET f(i, j) == Elem(v, i, j) IN Matrix(r, c, f)

=============================================================================
