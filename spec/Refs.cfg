CONSTANTS
  EmitObl = TRUE
  Cols = {1, 2, 27, 16383, 16384}
  Rows = {1, 3, 1048575, 1048576}
SPECIFICATION Spec
INVARIANT ColBijection
INVARIANT LastCol
INVARIANT RelAbs
INVARIANT Obl
CHECK_DEADLOCK FALSE
