------------------------------ MODULE XlArray ------------------------------
(* C05 - the one-step machine over XlArrayDef: a case is an operator with    *)
(* array operands, a fit, or an n-ary call; the step applies it.             *)
EXTENDS XlArrayDef

-----------------------------------------------------------------------------
\* pools
E1 == IntV(1)   E2 == IntV(2)   E3 == Txt(<<97>>)   E4 == Bool(TRUE)
E5 == Err("DIV0")   E6 == Blank
ElemPool == <<E1, E2, E3, E4, E5>>
ShapeSet == {<<1, 1>>, <<1, 2>>, <<1, 3>>, <<2, 1>>, <<3, 1>>, <<2, 2>>, <<2, 3>>, <<3, 2>>}

\* the array of shape sh whose element (i, j) is pool[(seed + 2i + j) mod 5 + 1]
Gen(sh, sd) ==
  LET f(i, j) == ElemPool[((sd + 2 * i + j) % 5) + 1]
  IN IF sh = <<1, 1>> THEN f(1, 1) ELSE Matrix(sh[1], sh[2], f)

\* ... and with blank elements too (only a referenced range can hold them)
ElemPoolB == <<E6, E1, E3, E6, E4, E2>>
GenB(sh, sd) ==
  LET f(i, j) == ElemPoolB[((sd + 2 * i + j) % 6) + 1]
  IN IF sh = <<1, 1>> THEN f(1, 1) ELSE Matrix(sh[1], sh[2], f)

CONSTANT EmitObl
VARIABLES kind, x, y, dst, out
vars == <<kind, x, y, dst, out>>
Pending == [k |-> "pending"]

ArgCounts == {1, 2, 3, 30, 31, 32, 33, 40}

Init ==
  /\ out = Pending
  /\ \/ /\ kind \in {"+", "&", "=", "*"}
        /\ \E s1 \in ShapeSet, s2 \in ShapeSet, d \in 0..1 :
              \/ x = Gen(s1, d) /\ y = Gen(s2, d + 2)
              \/ x = GenB(s1, d) /\ y = Gen(s2, d + 2)       \* blanks on the left,
              \/ x = Gen(s1, d) /\ y = GenB(s2, d + 1)       \* on the right
        /\ dst = <<0, 0>>
     \/ /\ kind = "u-"
        /\ \E s1 \in ShapeSet, d \in 0..2 : x = Gen(s1, d)
        /\ y = Blank /\ dst = <<0, 0>>
     \/ /\ kind = "fit"
        /\ \E s1 \in ShapeSet, d \in 0..1 : x = Gen(s1, d)
        /\ y = Blank
        /\ dst \in {<<r, c>> : r \in 1..3, c \in 1..3}
     \/ /\ kind = "concat"      \* CONCATENATE with n arguments: n - 1 scalars "b" and one array
        /\ \E s1 \in {<<1, 1>>, <<1, 2>>, <<2, 1>>, <<2, 2>>}, d \in 0..1 : x = Gen(s1, d)
        /\ y \in {IntV(n) : n \in ArgCounts}
        /\ dst \in {<<p, 0>> : p \in {1, 2}}     \* the array is the first / the last argument

ConcatArgs ==
  LET n == y.n
      bs == [k \in 1..(n - 1) |-> Txt(<<98>>)]
  IN IF dst[1] = 1 THEN <<x>> \o bs ELSE bs \o <<x>>

Apply ==
  /\ out = Pending
  /\ out' = CASE kind = "fit" -> Fit(x, dst[1], dst[2])
              [] kind = "u-" -> Lift1("u-", x)
              [] kind = "concat" -> LiftN("&", Txt(<<>>), ConcatArgs)
              [] OTHER -> Lift2(kind, x, y)
  /\ UNCHANGED <<kind, x, y, dst>>
Next == Apply
Spec == Init /\ [][Next]_vars
Done == out # Pending

\* ---- theorems -------------------------------------------------------------
ShapeOK ==
  (Done /\ kind \notin {"fit", "concat", "u-"}) =>
     Rows(out) = Max2(Rows(x), Rows(y)) /\ Cols(out) = Max2(Cols(x), Cols(y))
Pointwise ==
  (Done /\ kind \notin {"fit", "concat", "u-"} /\ out.k = "a") =>
     \A i \in 1..Rows(out) : \A j \in 1..Cols(out) :
        out.rows[i][j] = Bin(kind, Elem(x, i, j), Elem(y, i, j))
FitShape == (Done /\ kind = "fit") => Rows(out) = dst[1] /\ Cols(out) = dst[2]
FitIdempotent == (Done /\ kind = "fit") => Fit(out, dst[1], dst[2]) = out
FitScalar == (Done /\ kind = "fit" /\ x.k # "a") =>
     \A i \in 1..dst[1] : \A j \in 1..dst[2] : out.rows[i][j] = x
\* the result of an n-ary element-wise function does not depend on how many
\* arguments it has: CONCATENATE(x, b, ..., b) = x & "b...b" element by element
RECURSIVE Bs(_)
Bs(n) == IF n = 0 THEN <<>> ELSE <<98>> \o Bs(n - 1)
ArityIndependent ==
  (Done /\ kind = "concat") =>
     out = (IF dst[1] = 1 THEN Lift2("&", x, Txt(Bs(y.n - 1)))
            ELSE Lift2("&", Txt(Bs(y.n - 1)), x))

Obl == (EmitObl /\ Done) =>
   PrintT("OBL " \o ToJson([kind |-> kind, x |-> x, y |-> y, dst |-> dst, out |-> out]))
=============================================================================
