SPECIFICATION Spec
CONSTANTS
  EmitObl = TRUE
  Family = "lift"
INVARIANT WellFormed
INVARIANT LiftShape
INVARIANT OrderInvariant
INVARIANT AggBracket
INVARIANT VarNonNeg
INVARIANT KthDual
INVARIANT RoundBracket
INVARIANT ModLaw
INVARIANT CeilFloor
INVARIANT EvenOdd
INVARIANT IntLaw
INVARIANT DeMorgan
INVARIANT XorParity
INVARIANT KthEnds
INVARIANT IfSelects
INVARIANT IfsIsNestedIf
INVARIANT InfoPartition
INVARIANT ParityDual
INVARIANT LeftRight
INVARIANT MidLaw
INVARIANT ReplaceLaw
INVARIANT FindLaw
INVARIANT SearchGeneralisesFind
INVARIANT SubstituteLaw
INVARIANT TrimIdempotent
INVARIANT CaseLaws
INVARIANT ConcatLen
INVARIANT TextJoinLaw
INVARIANT Obl
CHECK_DEADLOCK FALSE
