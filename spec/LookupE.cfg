CONSTANTS
  EmitObl = TRUE
  MaxLen = 4
SPECIFICATION Spec
INVARIANT ScanRefinesMatch
INVARIANT CriteriaPartition
INVARIANT TableRow
INVARIANT Obl
CHECK_DEADLOCK FALSE
