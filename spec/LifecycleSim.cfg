SPECIFICATION Spec
CONSTANTS
  NOv = 3
  MaxLen = 8
  Objects = {"m"}
INVARIANT EmitHist
CHECK_DEADLOCK FALSE
