SPECIFICATION CSpec
INVARIANT Partial
INVARIANT FixedPoint
INVARIANT NoFireOverridden
PROPERTY FireOnce
POSTCONDITION EmitSem
CHECK_DEADLOCK FALSE
