----------------------------- MODULE Complete -----------------------------
(* C15 - a model built from chosen outputs (from_ranges / complete).        *)
(*                                                                          *)
(* Ideal: Needs(W, outs) - the least set of populated cells closed under    *)
(* the dependencies of their formulas (through single cells, ranges, names, *)
(* other sheets and books, and - for a cell inside an array-formula range - *)
(* the anchor cell that defines it).                                        *)
(* Implementation-shaped: the work-list of ExcelModel.complete(): a stack   *)
(* of node names, a done set; popping a node loads every populated cell of  *)
(* its rectangle that is not registered yet and pushes that cell's inputs;  *)
(* the order of popping is left open (the code pops the largest name).      *)
(* A case carries `outs`, the requested output cells.                       *)
EXTENDS Workbook

CONSTANT SpillAnchors   \* TRUE: a rectangle that reaches into an array-formula range
                        \* also pushes the anchor (the repaired behaviour)

RECURSIVE Closure(_, _)
Closure(W, S) ==
  LET N == S \cup UNION {Deps(W, id) : id \in S}
  IN IF N = S THEN S ELSE Closure(W, N)
OutSet(W) == {W.outs[i] : i \in 1..Len(W.outs)}
Needs(W) == Closure(W, {o \in OutSet(W) : Populated(W, o)})

VARIABLES stack, done, loaded, ti
bvars == <<w, val, stack, done, loaded>>

BInit == /\ w \in 1..Len(Cases)
         /\ val = <<>>
         /\ stack = OutSet(Cases[w])
         /\ done = {}
         /\ loaded = {}
         /\ ti = 0

\* what the file gives for a requested cell id: the cell itself when it stores
\* something; a spill cell stores nothing (only the anchor holds the formula)
Stored(W, id) == Populated(W, id) /\ W.cells[id].k # "sp"
Inputs(W, id) ==      \* the nodes a loaded cell asks for (unpopulated ones too)
  LET c == W.cells[id]
  IN IF c.k \in {"f", "af"} THEN ExprIds(W, c.e) ELSE {}

Pop(n) ==
  /\ n \in stack /\ n \notin done
  /\ done' = done \cup {n}
  /\ LET W == Cases[w]
         isSpill == Populated(W, n) /\ W.cells[n].k = "sp"
         anchor == IF isSpill /\ SpillAnchors THEN {W.cells[n].anchor} ELSE {}
         new == IF Stored(W, n) /\ n \notin loaded THEN {n} ELSE {}
         \* loading an anchor registers the whole array-formula range
         spills == IF Stored(W, n) /\ W.cells[n].k = "af"
                   THEN {s \in CellIds(W) : W.cells[s].k = "sp" /\ W.cells[s].anchor = n} ELSE {}
     IN /\ loaded' = loaded \cup new \cup spills
        /\ stack' = (stack \ {n}) \cup anchor \cup (IF new # {} THEN Inputs(W, n) ELSE {})
  /\ UNCHANGED <<w, val, ti>>

BNext == \E n \in stack : Pop(n)
BSpec == BInit /\ [][BNext]_<<bvars, ti>> /\ WF_<<bvars, ti>>(BNext)

BQuiescent == \A n \in stack : n \in done
\* everything the outputs need has been loaded when the work-list is empty
ClosureComplete == BQuiescent => Needs(Cases[w]) \subseteq loaded
\* nothing is loaded twice / nothing outside the workbook
LoadedArePopulated == \A id \in loaded : Populated(Cases[w], id)
\* every node is popped at most once, so the work-list terminates
Termination == <>BQuiescent

\* ---- trace validation: what a real from_ranges() run loaded (hook H7) ----------
\* A trace is [w, added (cell ids registered), popped (cell ids popped)].  It is
\* accepted iff everything the outputs need was registered, every registered
\* cell exists in the workbook, and every requested output was popped.
BTraces == JsonDeserialize(IOEnv.TRACE_FILE)
SeqSet(q) == {q[i] : i \in 1..Len(q)}
TInitB == ti = 1 /\ w = 1 /\ val = <<>> /\ stack = {} /\ done = {} /\ loaded = {}
TStepB ==
  /\ ti <= Len(BTraces)
  /\ LET t == BTraces[ti]
         W == Cases[t.w]
         A == SeqSet(t.added)
     IN /\ (IF Needs(W) \subseteq A THEN TRUE ELSE PrintT(<<"REJECT", ti, "needed-cell-not-loaded">>))
        /\ (IF \A id \in A : Populated(W, id) THEN TRUE ELSE PrintT(<<"REJECT", ti, "loaded-cell-not-in-workbook">>))
        /\ (IF OutSet(W) \subseteq SeqSet(t.popped) THEN TRUE ELSE PrintT(<<"REJECT", ti, "output-never-popped">>))
  /\ ti' = ti + 1
  /\ UNCHANGED bvars
TSpecB == TInitB /\ [][TStepB]_<<bvars, ti>>
ConsumedB == TLCGet("stats").diameter = Len(BTraces) + 1

\* the needs of every case, for the trace validation and the harness
EmitNeeds ==
  /\ TLCGet("stats").distinct >= 0
  /\ JsonSerialize(IOEnv.OUT_FILE, [i \in 1..Len(Cases) |-> Needs(Cases[i])])
=============================================================================
