CONSTANTS
  N = 4
  EmitObl = TRUE
INIT Init
NEXT NoStep
INVARIANT Obl
CHECK_DEADLOCK FALSE
