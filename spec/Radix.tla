-------------------------------- MODULE Radix --------------------------------
(* C20 - BIN / OCT / HEX <-> DEC.  A numeral is a sequence of at most ten    *)
(* digits in base b \in {2, 8, 16}; a ten-digit numeral whose first digit    *)
(* has its top bit set denotes  value - b^10  (two's complement).  Values    *)
(* reach 2^39, beyond TLC's integers: they are limb pairs <<hi, lo>> with    *)
(* value = hi * 2^20 + lo.                                                    *)
EXTENDS Integers, Sequences, TLC, Json, IOUtils, TLCExt

CONSTANTS EmitObl, Base, MaxLen, Digits

L == 1048576        \* 2^20
RECURSIVE Limbs(_, _)
Limbs(ds, acc) ==   \* acc = <<hi, lo>>
  IF ds = <<>> THEN acc
  ELSE LET t == acc[2] * Base + Head(ds)
       IN Limbs(Tail(ds), <<acc[1] * Base + (t \div L), t % L>>)
Unsigned(ds) == Limbs(ds, <<0, 0>>)
TopBit == Base \div 2
IsNeg(ds) == Len(ds) = 10 /\ ds[1] >= TopBit
Pow10 == CASE Base = 2 -> <<0, 1024>> [] Base = 8 -> <<1024, 0>> [] Base = 16 -> <<L, 0>>
\* |value| of a negative numeral:  b^10 - unsigned
Mag(ds) ==
  LET u == Unsigned(ds)  B == Pow10
      lo == B[2] - u[2]
  IN IF lo >= 0 THEN <<B[1] - u[1], lo>> ELSE <<B[1] - u[1] - 1, lo + L>>

VARIABLES ds, ti
Init == ds = <<>> /\ ti = 0
Next == \E d \in Digits : Len(ds) < MaxLen /\ ds' = Append(ds, d) /\ UNCHANGED ti
Spec == Init /\ [][Next]_<<ds, ti>>

\* sanity of the limb arithmetic
LimbsOK == LET u == Unsigned(ds) IN u[2] \in 0..(L - 1) /\ u[1] >= 0
\* a negative numeral has a magnitude in 1 .. b^10 / 2
NegRange == IsNeg(ds) => LET g == Mag(ds) IN (g[1] > 0 \/ g[2] > 0)
\* appending a digit multiplies by the base and adds the digit (non-negative numerals)
AppendLaw == (Len(ds) >= 1 /\ Len(ds) < 10) =>
   LET u == Unsigned(ds)  p == Unsigned(SubSeq(ds, 1, Len(ds) - 1))
       t == p[2] * Base + ds[Len(ds)]
   IN u = <<p[1] * Base + (t \div L), t % L>>

Obl == (EmitObl /\ ds # <<>>) => PrintT("OBL " \o ToJson(
   [ds |-> ds, neg |-> IsNeg(ds), u |-> Unsigned(ds), mag |-> IF IsNeg(ds) THEN Mag(ds) ELSE <<0, 0>>]))

\* ---- trace part: recorded X2DEC results on sampled numerals ----------------------
\* [ds, neg, hi, lo]: the code returned (neg ? -1 : 1) * (hi * 2^20 + lo) for numeral ds
Traces == JsonDeserialize(IOEnv.TRACE_FILE)
TInit == ti = 1 /\ ds = <<>>
TStep ==
  /\ ti <= Len(Traces)
  /\ LET t == Traces[ti]
         want == IF IsNeg(t.ds) THEN Mag(t.ds) ELSE Unsigned(t.ds)
     IN IF t.neg = IsNeg(t.ds) /\ <<t.hi, t.lo>> = want THEN TRUE
        ELSE PrintT(<<"REJECT", ti>>)
  /\ ti' = ti + 1 /\ UNCHANGED ds
TSpec == TInit /\ [][TStep]_<<ds, ti>>
Consumed == TLCGet("stats").diameter = Len(Traces) + 1
=============================================================================
