CONSTANTS
  EmitObl = TRUE
  Base = 8
  MaxLen = 10
  Digits = {0, 4, 7}
SPECIFICATION Spec
INVARIANT LimbsOK
INVARIANT NegRange
INVARIANT AppendLaw
INVARIANT Obl
CHECK_DEADLOCK FALSE
