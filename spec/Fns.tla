-------------------------------- MODULE Fns --------------------------------
(* C12 - the one-step machine over FnDef: a case is a function name with    *)
(* its arguments (directly typed, referenced ranges with blanks, array      *)
(* literals); the step applies the definition.  The theorems relate the     *)
(* definitions to each other (order invariance of aggregations, rounding    *)
(* brackets, the division law of MOD, De Morgan, text decompositions), and  *)
(* every state is an obligation replayed on the real function.              *)
EXTENDS FnMore

CONSTANTS EmitObl, Family       \* Family: which group of cases this run explores

Scalars(args) == [i \in 1..Len(args) |-> Scalar(args[i])]

Fn(fn, args) ==
  LET s == Scalars(args)
      n == Len(args)
  IN CASE fn \in AggNames -> Agg(fn, args)
       [] fn \in {"COUNT", "COUNTA", "COUNTBLANK"} -> IntV(CountArgs(fn, args))
       [] fn \in {"LARGE", "SMALL"} -> Kth(fn, args[1], args[2])
       [] fn = "SUMPRODUCT" -> SumProduct(args)
       [] fn \in {"AND", "OR", "XOR"} -> Junction(fn, args)
       [] fn = "NOT" -> (LET l == AsLogical(s[1]) IN IF l.k = "e" THEN l ELSE Bool(~l.b))
       [] fn = "IF" -> If(s[1], s[2], IF n = 3 THEN s[3] ELSE Bool(FALSE))
       [] fn = "IFS" -> Ifs(s)
       [] fn = "SWITCH" -> Switch(s[1], Tail(s))
       [] fn = "IFERROR" -> IF s[1].k = "e" THEN Back(s[2]) ELSE Back(s[1])
       [] fn = "IFNA" -> IF s[1] = Err("NA") THEN Back(s[2]) ELSE Back(s[1])
       [] fn \in {"ISBLANK", "ISNUMBER", "ISTEXT", "ISNONTEXT", "ISLOGICAL", "ISERROR", "ISERR", "ISNA"} ->
            IsFn(fn, s[1])
       [] fn \in {"ISEVEN", "ISODD"} -> Parity(fn, s[1])
       [] fn \in {"ABS", "SIGN", "INT", "SQRT", "EXP", "LN", "LOG10", "EVEN", "ODD", "SIN", "COS",
                  "TAN", "ASIN", "ACOS", "ATAN", "SINH", "COSH", "TANH", "RADIANS", "DEGREES"} ->
            MathCall(fn, s)
       [] fn = "TRUNC" -> MathCall(fn, IF n = 1 THEN <<s[1], Zero>> ELSE s)
       [] fn = "LOG" -> MathCall(fn, IF n = 1 THEN <<s[1], IntV(10)>> ELSE s)
       [] fn \in {"POWER", "MOD", "ROUND", "ROUNDUP", "ROUNDDOWN", "CEILING", "FLOOR", "ATAN2"} ->
            MathCall(fn, s)
       [] fn \in {"LEN", "UPPER", "LOWER", "TRIM", "LEFT", "RIGHT", "MID", "FIND", "SEARCH",
                  "REPLACE", "SUBSTITUTE", "VALUE"} -> TextCall(fn, s)
       [] fn \in {"MAXA", "MINA", "AVERAGEA"} -> AggA(fn, args)
       [] fn \in {"GCD", "LCM"} -> GcdLcm(fn, args)
       [] fn \in {"T", "CODE", "CHAR", "FACT"} -> Extra1(fn, s[1])
       [] fn = "MROUND" -> (LET x == Coerce(s[1])  y == Coerce(s[2])
                            IN IF s[1].k = "e" THEN s[1] ELSE IF s[2].k = "e" THEN s[2]
                               ELSE IF x.k = "e" THEN x ELSE IF y.k = "e" THEN y ELSE MRound(x, y))
       [] fn \in {"PERCENTILE", "PERCENTILE.INC", "PERCENTILE.EXC", "QUARTILE", "QUARTILE.INC",
                  "QUARTILE.EXC"} -> Percentile(fn, args[1], args[2])
       [] fn \in {"CEILING.MATH", "FLOOR.MATH", "CEILING.PRECISE", "FLOOR.PRECISE", "ISO.CEILING"} ->
            CeilFloorMathCall(fn, s)
       [] fn = "FACTDOUBLE" -> FactDouble(s[1])
       [] fn = "MMULT" -> MMult(args[1], args[2])
       [] fn = "MDETERM" -> MDeterm(args[1])
       [] fn = "MUNIT" -> MUnit(s[1])
       [] fn = "TRANSPOSE" -> Transpose(args[1])
       [] fn = "CONCAT" -> Concat(args)
       [] fn = "CONCATENATE" -> Concat(args)      \* (scalars only in the cases below)
       [] fn = "TEXTJOIN" -> TextJoin(s[1], s[2], SubSeq(args, 3, n))

\* an element-wise function given arrays: the scalar rule at every position of the
\* stretched shape (C05's lifting), each element seen as a directly typed value or as
\* one referenced cell
ArgRows(a) == IF a.f = "v" THEN 1 ELSE Rows(a.v)
ArgCols(a) == IF a.f = "v" THEN 1 ELSE Cols(a.v)
ElemArg(a, i, j) == IF a.f = "v" THEN a
                    ELSE IF a.f = "r" THEN Cell1(Elem(a.v, i, j)) ELSE Direct(Elem(a.v, i, j))
LiftFn(fn, args) ==
  LET R == MaxOf([k \in 1..Len(args) |-> ArgRows(args[k])])
      C == MaxOf([k \in 1..Len(args) |-> ArgCols(args[k])])
      f(i, j) == Fn(fn, [k \in 1..Len(args) |-> ElemArg(args[k], i, j)])
  IN Matrix(R, C, f)

-----------------------------------------------------------------------------
\* ---- pools ----------------------------------------------------------------------
S(str) == Txt(str)
tA == S(<<97>>)                      \* "a"
tABC == S(<<97, 98, 99>>)            \* "abc"
tEmpty == S(<<>>)
tTrue == S(<<84, 82, 85, 69>>)       \* "TRUE"
tFalseL == S(<<102, 97, 108, 115, 101>>)   \* "false"
t4 == S(<<52>>)                      \* "4"
t25 == S(<<50, 46, 53>>)             \* "2.5"
tX == S(<<120>>)                     \* "x"
D0 == Err("DIV0")
NAe == Err("NA")
T == Bool(TRUE)
F == Bool(FALSE)

D(v) == Direct(v)
Seqs1(P) == {<<a>> : a \in P}
Seqs2(P) == {<<a, b>> : a \in P, b \in P}
Seqs3(P) == {<<a, b, c>> : a \in P, b \in P, c \in P}
Case(fn, args) == [fn |-> fn, args |-> args]
Reverse(s) == [i \in 1..Len(s) |-> s[Len(s) + 1 - i]]

\* -- aggregations
AggArgs == {D(IntV(1)), D(Num(5, 2)), D(IntV(-3)), D(T), D(t4), D(tX), D(D0),
            Ref(<<<<IntV(1), IntV(2)>>>>),
            Ref(<<<<S(<<53>>), T, Blank, IntV(3)>>>>),
            Ref(<<<<IntV(-1)>>, <<Num(1, 2)>>>>),
            Ref(<<<<NAe, IntV(1)>>>>),
            Cell1(Blank), Cell1(tX), Cell1(T), Cell1(IntV(7)),
            Lit(<<<<IntV(1), S(<<55>>), T>>>>),
            Lit(<<<<IntV(2), IntV(4)>>, <<IntV(4), IntV(6)>>>>)}
AggArgsSmall == {D(IntV(2)), D(F), Ref(<<<<IntV(4), tX, IntV(9)>>>>), Cell1(Blank),
                 Ref(<<<<Num(3, 2), Num(7, 2)>>>>)}
AggCases == {Case(fn, a) : fn \in AggNames \cup {"COUNT", "COUNTA"},
                           a \in Seqs1(AggArgs) \cup Seqs2(AggArgs) \cup Seqs3(AggArgsSmall)}
             \cup {Case("COUNTBLANK", <<a>>) : a \in {x \in AggArgs : x.f = "r"} \cup
                       {Ref(<<<<tEmpty, Blank, IntV(0), S(<<32>>)>>>>)}}
KthArrs == {Ref(<<<<IntV(3), IntV(1), IntV(2)>>>>), Ref(<<<<IntV(5), tX, Blank, IntV(5), T, IntV(-1)>>>>),
            Lit(<<<<IntV(4), IntV(9)>>, <<IntV(1), IntV(9)>>>>), Ref(<<<<tX, Blank>>>>),
            Ref(<<<<IntV(1), D0>>>>), Cell1(IntV(7))}
KthKs == {D(IntV(1)), D(IntV(2)), D(IntV(3)), D(IntV(4)), D(IntV(0)), D(IntV(-1)), D(t4), D(tX),
          D(NAe), Cell1(Blank), Cell1(IntV(2))}
KthCases == {Case(fn, <<a, k>>) : fn \in {"LARGE", "SMALL"}, a \in KthArrs, k \in KthKs}
SpArrs == {Ref(<<<<IntV(1), IntV(2)>>>>), Ref(<<<<IntV(3), tX>>>>), Ref(<<<<T, IntV(5)>>>>),
           Ref(<<<<Blank, IntV(4)>>>>), Ref(<<<<IntV(1)>>, <<IntV(2)>>>>), Ref(<<<<IntV(2), D0>>>>),
           Lit(<<<<IntV(2), Num(1, 2)>>>>), Ref(<<<<IntV(1), IntV(2), IntV(3)>>>>), Cell1(IntV(3))}
SpCases == {Case("SUMPRODUCT", a) : a \in Seqs1(SpArrs) \cup Seqs2(SpArrs)}

\* -- logical
LogicScalars == {D(T), D(F), D(IntV(1)), D(IntV(0)), D(IntV(2)), D(tTrue), D(tFalseL), D(tABC),
                 D(tEmpty), Cell1(Blank), D(D0), D(NAe), Cell1(T), Cell1(tABC), Cell1(IntV(0))}
JunctionArgs == {D(T), D(F), D(IntV(1)), D(IntV(0)), D(tABC), D(tTrue), D(D0), D(S(<<48>>)),
                 Ref(<<<<T, tX>>>>), Ref(<<<<Blank, IntV(0)>>>>), Ref(<<<<tX, Blank>>>>),
                 Ref(<<<<F, NAe>>>>), Ref(<<<<T, T>>, <<IntV(3), T>>>>), Cell1(Blank),
                 Lit(<<<<T, F>>>>), Lit(<<<<IntV(1), tX>>>>),
                 \* numbers other than 0 / 1 are TRUE (not "one more TRUE per unit")
                 D(IntV(2)), D(Num(1, 2)), D(IntV(-1)), Lit(<<<<IntV(2), IntV(0)>>>>),
                 Ref(<<<<IntV(2), tX, T, Num(1, 2)>>>>)}
BranchVals == {D(IntV(1)), D(tX), Cell1(Blank), D(NAe), D(F)}
SwX == {D(IntV(1)), D(IntV(2)), D(tA), D(S(<<65>>)), D(T), D(S(<<49>>)), D(D0), Cell1(Blank), D(IntV(0))}
LogicCases ==
  {Case("NOT", <<a>>) : a \in LogicScalars}
  \cup {Case(fn, a) : fn \in {"AND", "OR", "XOR"}, a \in Seqs1(JunctionArgs) \cup Seqs2(JunctionArgs)}
  \cup {Case("IF", <<c, a, b>>) : c \in LogicScalars, a \in BranchVals, b \in BranchVals}
  \cup {Case("IF", <<c, a>>) : c \in LogicScalars, a \in BranchVals}
  \cup {Case("IFS", <<c, D(IntV(1))>>) : c \in LogicScalars}
  \cup {Case("IFS", <<c1, v, c2, D(IntV(2))>>) : c1 \in LogicScalars, c2 \in LogicScalars,
                                                  v \in {D(IntV(1)), Cell1(Blank), D(D0)}}
  \cup {Case("SWITCH", <<x, v1, D(IntV(1)), v2, D(IntV(2))>> \o dflt) :
            x \in SwX, v1 \in SwX, v2 \in SwX, dflt \in {<<>>, <<D(IntV(9))>>}}
  \cup {Case(fn, <<v, alt>>) : fn \in {"IFERROR", "IFNA"}, v \in LogicScalars,
                                alt \in {D(IntV(0)), D(tX), D(D0), Cell1(Blank)}}

\* -- information
InfoVals == {IntV(0), IntV(1), IntV(2), IntV(3), Num(5, 2), Num(-5, 2), Num(-3, 2), IntV(-3), IntV(-4),
             Num(7, 2), t4, S(<<51>>), t25, tABC, tEmpty, T, F, D0, NAe, Err("VALUE")}
InfoArgs == {D(v) : v \in InfoVals} \cup {Cell1(v) : v \in InfoVals \cup {Blank}}
InfoCases == {Case(fn, <<a>>) : fn \in {"ISBLANK", "ISNUMBER", "ISTEXT", "ISNONTEXT", "ISLOGICAL",
                                        "ISERROR", "ISERR", "ISNA", "ISEVEN", "ISODD"}, a \in InfoArgs}

\* -- mathematics
OtherKinds == {D(t4), D(t25), D(tABC), D(tEmpty), D(T), D(F), Cell1(Blank), D(NAe), D(D0),
               Cell1(t4), Cell1(T), Cell1(tABC)}
X1 == {IntV(0), IntV(1), IntV(-1), IntV(2), IntV(4), Num(1, 4), Num(9, 4), Num(1, 2), Num(-1, 2),
       Num(-5, 2), Num(3, 2), Num(7, 2), Num(-7, 2), IntV(10), IntV(100), Num(1, 10), IntV(-4),
       IntV(3), IntV(-3), Num(3, 10), IntV(1000), Num(1, 1000), IntV(16), Num(-11, 10), Num(11, 10)}
Math1Names == {"ABS", "SIGN", "INT", "SQRT", "EXP", "LN", "LOG10", "EVEN", "ODD", "SIN", "COS",
               "TAN", "ASIN", "ACOS", "ATAN", "SINH", "COSH", "TANH", "RADIANS", "DEGREES",
               "TRUNC", "LOG"}
Math1Cases == {Case(fn, <<a>>) : fn \in Math1Names, a \in {D(x) : x \in X1} \cup OtherKinds}

RoundX == {IntV(0), Num(1, 2), Num(3, 2), Num(5, 2), Num(-1, 2), Num(-5, 2), Num(23, 20), Num(-23, 20),
           Num(107, 40), Num(201, 200), Num(57, 200), Num(29, 20), IntV(15), IntV(25), IntV(-25),
           IntV(150), IntV(1249), Num(1234567, 1000), Num(-1234567, 1000), Num(1, 2500), Num(5, 1000),
           Num(1005, 1000), Num(8325, 1000), Num(1235, 100)}
RoundD == {D(IntV(k)) : k \in -3..3} \cup {D(Num(19, 10)), D(Num(-1, 2)), D(S(<<49>>)), D(T), Cell1(Blank),
                                             D(tABC), D(NAe)}
RoundCases == {Case(fn, <<D(x), d>>) : fn \in {"ROUND", "ROUNDUP", "ROUNDDOWN", "TRUNC"}, x \in RoundX, d \in RoundD}
              \cup {Case(fn, <<a, D(IntV(1))>>) : fn \in {"ROUND", "ROUNDUP", "ROUNDDOWN", "TRUNC"}, a \in OtherKinds}
ModX == {IntV(5), IntV(-5), Num(11, 2), Num(-11, 2), IntV(3), IntV(-3), IntV(0), Num(1, 2), IntV(2),
         IntV(-2), Num(1, 10), Num(3, 10), IntV(1), Num(-1, 2), IntV(10)}
ModCases == {Case("MOD", <<D(a), D(b)>>) : a \in ModX, b \in ModX}
            \cup {Case("MOD", <<a, D(IntV(3))>>) : a \in OtherKinds}
            \cup {Case("MOD", <<D(IntV(7)), a>>) : a \in OtherKinds}
CfX == {Num(5, 2), Num(-5, 2), IntV(0), IntV(7), IntV(-7), Num(23, 20), IntV(10), Num(6, 5), Num(3, 10),
        IntV(4), IntV(-4), Num(1, 2)}
CfS == {IntV(2), IntV(-2), IntV(0), Num(1, 10), IntV(1), IntV(5), Num(-1, 2), Num(1, 2), IntV(-1), IntV(3)}
CfCases == {Case(fn, <<D(x), D(s)>>) : fn \in {"CEILING", "FLOOR"}, x \in CfX, s \in CfS}
           \cup {Case(fn, <<a, D(IntV(2))>>) : fn \in {"CEILING", "FLOOR"}, a \in OtherKinds}
           \cup {Case(fn, <<D(IntV(7)), a>>) : fn \in {"CEILING", "FLOOR"}, a \in OtherKinds}
PowX == {IntV(0), IntV(1), IntV(2), IntV(-2), IntV(4), IntV(-8), Num(1, 2), Num(1, 3), IntV(3), IntV(-1),
         Num(-1, 2), IntV(10), Num(3, 2)}
PowCases == {Case("POWER", <<D(a), D(b)>>) : a \in PowX, b \in PowX}
            \cup {Case("POWER", <<a, D(IntV(2))>>) : a \in OtherKinds}
            \cup {Case("POWER", <<D(IntV(2)), a>>) : a \in OtherKinds}
LogX == {IntV(1), IntV(10), IntV(100), IntV(8), IntV(0), IntV(-1), Num(1, 2), IntV(2)}
LogB == {IntV(10), IntV(2), IntV(1), IntV(0), IntV(-2), Num(1, 2), IntV(8)}
LogCases == {Case("LOG", <<D(a), D(b)>>) : a \in LogX, b \in LogB}
            \cup {Case("ATAN2", <<D(a), D(b)>>) : a \in {IntV(0), IntV(1), IntV(-1), IntV(2)},
                                                  b \in {IntV(0), IntV(1), IntV(-1), Num(1, 2)}}

\* -- text
cA == 97  cB == 98  cC == 99
sAbcab == S(<<97, 98, 99, 97, 98>>)          \* "abcab"
sQ == S(<<97, 63, 98>>)                      \* "a?b"
sMix == S(<<65, 66, 97>>)                    \* "ABa"
sSp == S(<<32, 32, 97, 32, 32, 98, 32>>)     \* "  a  b "
sAbCd == S(<<97, 98, 32, 99, 100>>)          \* "ab cd"
sAaa == S(<<97, 97, 97>>)
sAbcabc == S(<<97, 98, 99, 97, 98, 99>>)
Strs == {tEmpty, tA, tABC, sSp, sAbCd, sQ, sMix, tTrue}
TextVals == {D(x) : x \in Strs} \cup {D(Num(3, 2)), D(IntV(-3)), D(T), Cell1(Blank), D(NAe), Cell1(IntV(12)),
                                       D(Num(1, 8)), D(IntV(1000000)), D(Num(-1, 4))}
Text1Cases == {Case(fn, <<a>>) : fn \in {"LEN", "UPPER", "LOWER", "TRIM"}, a \in TextVals}
KArgs == {D(IntV(0)), D(IntV(1)), D(IntV(2)), D(IntV(10)), D(IntV(-1)), D(Num(19, 10)), D(S(<<50>>)),
          D(T), Cell1(Blank), D(tABC), D(D0)}
LeftCases == {Case(fn, <<a>>) : fn \in {"LEFT", "RIGHT"}, a \in TextVals}
             \cup {Case(fn, <<a, k>>) : fn \in {"LEFT", "RIGHT"},
                      a \in {D(tABC), D(tEmpty), D(Num(3, 2)), D(sAbCd), Cell1(Blank), D(NAe)}, k \in KArgs}
MidCases == {Case("MID", <<a, D(IntV(st)), D(IntV(k))>>) :
                a \in {D(tABC), D(tEmpty), D(sAbCd), D(IntV(12345)), Cell1(Blank)},
                st \in {0, 1, 2, 3, 4, 5, 9, -1}, k \in {0, 1, 2, 3, 9, -1}}
            \cup {Case("MID", <<D(sAbCd), st, k>>) : st \in KArgs, k \in {D(IntV(2)), D(t4), D(tABC), Cell1(Blank)}}
Finds == {tEmpty, tA, S(<<65>>), S(<<98>>), S(<<97, 98>>), S(<<122>>), S(<<63>>), S(<<97, 42>>),
          S(<<126, 63>>), S(<<42, 98>>), S(<<66, 97>>), S(<<97, 63, 98>>), S(<<63, 63>>)}
Withins == {tEmpty, sAbcab, sQ, sMix}
FindCases == {Case(fn, <<D(f), D(w)>>) : fn \in {"FIND", "SEARCH"}, f \in Finds, w \in Withins}
             \cup {Case(fn, <<D(f), D(w), D(IntV(st))>>) : fn \in {"FIND", "SEARCH"}, f \in Finds, w \in Withins,
                                                            st \in {1, 2, 4, 5, 6, 0, -1}}
             \cup {Case(fn, <<D(tA), D(sAbcab), k>>) : fn \in {"FIND", "SEARCH"}, k \in KArgs}
             \cup {Case(fn, <<f, w>>) : fn \in {"FIND", "SEARCH"},
                      f \in {D(IntV(2)), D(T), Cell1(Blank), D(NAe)},
                      w \in {D(IntV(1234)), D(tTrue), Cell1(Blank), D(D0), D(IntV(212))}}
             \* 1 / TRUE and 0 / FALSE as the text looked for are "1" / "TRUE" and "0" / "FALSE"
             \cup {Case(fn, <<f, w>>) : fn \in {"FIND", "SEARCH"},
                      f \in {D(IntV(1)), D(T), D(IntV(0)), D(F), Cell1(IntV(1)), Cell1(T), Cell1(F), Cell1(IntV(0))},
                      w \in {D(S(<<120, 49, 45, 84, 82, 85, 69>>)),          \* "x1-TRUE"
                             D(S(<<70, 65, 76, 83, 69, 45, 48>>))}}          \* "FALSE-0"
ReplaceCases == {Case("REPLACE", <<D(o), D(IntV(st)), D(IntV(k)), D(nw)>>) :
                    o \in {tABC, tEmpty, sAbCd}, st \in {0, 1, 2, 3, 4, 5, 9}, k \in {0, 1, 2, 5, -1},
                    nw \in {tEmpty, S(<<88, 89>>)}}
                \cup {Case("REPLACE", <<a, st, k, nw>>) :
                    a \in {D(IntV(12345)), Cell1(Blank), D(NAe)}, st \in {D(IntV(2)), D(S(<<50>>)), D(tABC), Cell1(Blank)},
                    k \in {D(IntV(1)), D(Num(19, 10)), D(D0)}, nw \in {D(IntV(7)), D(T), Cell1(Blank)}}
SubstCases == {Case("SUBSTITUTE", <<D(t), D(o), D(nw)>> \o inst) :
                  t \in {sAaa, sAbcabc, tEmpty, sMix}, o \in {tA, S(<<98, 99>>), tEmpty, S(<<122>>), S(<<65>>), S(<<97, 97>>)},
                  nw \in {tEmpty, tX, S(<<97, 97>>)},
                  inst \in {<<>>} \cup {<<D(IntV(k))>> : k \in {1, 2, 3, 4, 0, -1}}}
              \cup {Case("SUBSTITUTE", <<D(sAaa), D(tA), D(tX), k>>) :
                        k \in KArgs \ {D(S(<<50>>)), D(T)}}      \* (text / logical instance: not defined here)
              \cup {Case("SUBSTITUTE", <<a, b, c>>) : a \in {D(IntV(1212)), Cell1(Blank), D(NAe)},
                                                      b \in {D(IntV(1)), D(T), Cell1(Blank)}, c \in {D(IntV(9)), D(D0), Cell1(Blank)}}
ValueTexts == {S(<<49, 50>>), S(<<32, 49, 46, 53, 32>>), S(<<45, 50>>), S(<<49, 101, 50>>), S(<<46, 53>>),
               S(<<43, 51>>), tABC, tEmpty, S(<<49, 120>>), S(<<49, 46>>), S(<<45>>), S(<<49, 101>>)}
ValueCases == {Case("VALUE", <<D(t)>>) : t \in ValueTexts}
              \cup {Case("VALUE", <<a>>) : a \in {D(IntV(5)), D(Num(-3, 2)), D(T), Cell1(Blank), D(NAe), Cell1(S(<<55>>))}}
JoinArgs == {D(tA), D(tEmpty), D(IntV(1)), D(T), Cell1(Blank), D(NAe),
             Ref(<<<<tA, Blank, S(<<98>>)>>>>), Ref(<<<<tEmpty, IntV(2)>>, <<T, tX>>>>), Ref(<<<<tA, D0>>>>),
             Lit(<<<<tA, tEmpty, IntV(3)>>>>)}
ConcatCases == {Case("CONCAT", a) : a \in Seqs1(JoinArgs) \cup Seqs2(JoinArgs)}
               \cup {Case("CONCATENATE", a) : a \in Seqs1({x \in JoinArgs : x.f = "v" \/ x = Cell1(Blank)})
                                                   \cup Seqs2({x \in JoinArgs : x.f = "v" \/ x = Cell1(Blank)})}
               \cup {Case("TEXTJOIN", <<dl, ig>> \o a) :
                        dl \in {D(S(<<44>>)), D(tEmpty), D(IntV(0)), Cell1(Blank), D(S(<<45, 45>>))},
                        ig \in {D(T), D(F), D(IntV(1)), D(IntV(0))},
                        a \in Seqs1(JoinArgs) \cup Seqs2(JoinArgs)}
               \cup {Case("TEXTJOIN", <<D(S(<<44>>)), ig, D(tA), D(tEmpty), D(tX)>>) :
                        ig \in {D(tTrue), D(tABC), Cell1(Blank), D(D0)}}
TextCases == Text1Cases \cup LeftCases \cup MidCases \cup FindCases \cup ReplaceCases \cup SubstCases
             \cup ValueCases \cup ConcatCases

\* -- element-wise functions over arrays
LRow == Lit(<<<<Num(3, 2), Num(-5, 2)>>>>)
LCol == Ref(<<<<IntV(4)>>, <<tX>>>>)
LSq == Ref(<<<<IntV(9), Blank>>, <<T, NAe>>>>)
LTxt == Lit(<<<<tABC, sAbCd>>>>)
LTxtCol == Ref(<<<<tA>>, <<IntV(12)>>, <<Blank>>>>)
LArrs == {LRow, LCol, LSq}
LiftCases ==
  {Case(fn, <<a>>) : fn \in {"ABS", "INT", "SQRT", "SIGN", "EVEN", "NOT", "ISNUMBER", "ISTEXT", "ISBLANK",
                             "ISERROR", "LEN", "UPPER", "TRIM", "VALUE"}, a \in LArrs \cup {LTxt, LTxtCol}}
  \cup {Case(fn, <<a, D(IntV(1))>>) : fn \in {"ROUND", "ROUNDDOWN", "MOD", "POWER", "LEFT", "RIGHT"},
                                      a \in LArrs \cup {LTxt, LTxtCol}}
  \cup {Case(fn, <<D(Num(1235, 100)), Lit(<<<<IntV(1), IntV(0), IntV(-1)>>>>)>>) : fn \in {"ROUND", "ROUNDUP", "TRUNC"}}
  \cup {Case("MOD", <<Lit(<<<<IntV(5), IntV(7), IntV(-7)>>>>), Ref(<<<<IntV(2)>>, <<IntV(-3)>>>>)>>),
        Case("POWER", <<Ref(<<<<IntV(2)>>, <<IntV(0)>>>>), Lit(<<<<IntV(2), IntV(-1), IntV(0)>>>>)>>),
        Case("MID", <<LTxt, Lit(<<<<IntV(1)>>, <<IntV(2)>>>>), D(IntV(2))>>),
        Case("FIND", <<D(tA), LTxt>>), Case("SEARCH", <<Lit(<<<<tA, S(<<63, 99>>)>>>>), D(tABC)>>),
        Case("SUBSTITUTE", <<LTxt, D(tA), Lit(<<<<tX>>, <<tEmpty>>>>)>>),
        Case("REPLACE", <<LTxt, D(IntV(2)), Lit(<<<<IntV(0), IntV(1)>>>>), D(tX)>>),
        Case("CONCATENATE", <<LTxt, D(tX), LTxtCol>>)}
  \cup {Case("IF", <<c, a, b>>) : c \in {LSq, Lit(<<<<T, F>>>>), Ref(<<<<IntV(0)>>, <<IntV(2)>>>>)},
                                   a \in {D(IntV(1)), LRow}, b \in {D(tX), LCol}}
  \cup {Case(fn, <<a, alt>>) : fn \in {"IFERROR", "IFNA"}, a \in {LSq, Lit(<<<<D0, NAe>>>>)},
                               alt \in {D(IntV(0)), LRow}}

\* -- beyond C12's list (replayed for information only)
GArgs == {D(IntV(12)), D(IntV(18)), D(Num(15, 2)), D(IntV(0)), D(IntV(-4)), D(t4), D(tX), D(T), D(NAe),
          Ref(<<<<IntV(8), IntV(20)>>>>), Ref(<<<<tX, Blank, IntV(6)>>>>), Cell1(Blank)}
ExtraCases ==
  {Case(fn, a) : fn \in {"MAXA", "MINA", "AVERAGEA"}, a \in Seqs1(AggArgs) \cup Seqs2(AggArgsSmall)}
  \cup {Case(fn, a) : fn \in {"GCD", "LCM"},
            a \in Seqs1(GArgs) \cup Seqs2(GArgs)}
  \cup {Case(fn, <<a>>) : fn \in {"T", "CODE"}, a \in TextVals}
  \cup {Case(fn, <<D(x)>>) : fn \in {"CHAR", "FACT"},
            x \in {IntV(0), IntV(1), IntV(5), IntV(12), IntV(65), Num(131, 2), IntV(170), IntV(255), IntV(256),
                   IntV(-1), tX, S(<<54, 54>>), T, NAe}}
  \cup {Case("MROUND", <<D(x), D(y)>>) : x \in {IntV(10), IntV(-10), Num(5, 2), Num(13, 10), IntV(0), IntV(7)},
                                         y \in {IntV(3), IntV(-3), Num(1, 2), IntV(0), Num(1, 5), IntV(2)}}


\* -- second group beyond C12's list (FnMore), also replayed for information only
PArrs == {Ref(<<<<IntV(1), IntV(2), IntV(3), IntV(4)>>>>), Ref(<<<<IntV(7)>>, <<Num(5, 2)>>, <<IntV(-1)>>>>),
          Ref(<<<<IntV(3), tX, Blank>>, <<T, IntV(10), IntV(1)>>>>), Lit(<<<<IntV(2), IntV(9), IntV(4), IntV(6), IntV(5)>>>>),
          Ref(<<<<IntV(5)>>>>), Ref(<<<<tX, Blank>>>>), Ref(<<<<IntV(1), D0>>>>)}
PKs == {IntV(0), Num(1, 4), Num(1, 3), Num(1, 2), Num(9, 10), IntV(1), Num(11, 10), Num(-1, 10), tX, NAe, S(<<48, 46, 53>>)}
QKs == {IntV(0), IntV(1), IntV(2), IntV(3), IntV(4), IntV(5), IntV(-1), Num(5, 2), tX}
MoreX == {Num(43, 10), Num(-43, 10), IntV(6), IntV(-6), IntV(0), Num(-5, 2), Num(5, 2), t4, tX, NAe}
MoreS == {IntV(1), IntV(2), IntV(-2), Num(1, 2), IntV(0), Num(3, 10), tX}
Mats == {Lit(<<<<IntV(1), IntV(2)>>, <<IntV(3), IntV(4)>>>>), Ref(<<<<IntV(2), IntV(0)>>, <<IntV(-1), Num(1, 2)>>>>),
         Ref(<<<<IntV(1), IntV(2), IntV(3)>>, <<IntV(0), IntV(1), IntV(4)>>, <<IntV(5), IntV(6), IntV(0)>>>>),
         Lit(<<<<IntV(1), IntV(2), IntV(3)>>>>), Ref(<<<<IntV(4)>>, <<IntV(5)>>, <<IntV(6)>>>>),
         Ref(<<<<IntV(1), Blank>>, <<IntV(3), IntV(4)>>>>), Ref(<<<<IntV(1), tX>>, <<IntV(3), IntV(4)>>>>),
         Ref(<<<<IntV(1), D0>>, <<IntV(3), IntV(4)>>>>), D(IntV(3)), Ref(<<<<IntV(7)>>>>),
         Lit(<<<<IntV(0), IntV(1)>>, <<IntV(1), IntV(0)>>>>)}
MoreCases ==
  {Case(fn, <<a, D(k)>>) : fn \in {"PERCENTILE", "PERCENTILE.INC", "PERCENTILE.EXC"}, a \in PArrs, k \in PKs}
  \cup {Case(fn, <<a, D(k)>>) : fn \in {"QUARTILE", "QUARTILE.INC", "QUARTILE.EXC"}, a \in PArrs, k \in QKs}
  \cup {Case(fn, <<D(x)>>) : fn \in {"CEILING.MATH", "FLOOR.MATH", "CEILING.PRECISE", "FLOOR.PRECISE", "ISO.CEILING"},
                              x \in MoreX}
  \cup {Case(fn, <<D(x), D(g)>>) : fn \in {"CEILING.MATH", "FLOOR.MATH", "CEILING.PRECISE", "FLOOR.PRECISE",
                                            "ISO.CEILING"}, x \in MoreX, g \in MoreS}
  \cup {Case(fn, <<D(x), D(g), D(m)>>) : fn \in {"CEILING.MATH", "FLOOR.MATH"}, x \in MoreX, g \in MoreS,
                                          m \in {IntV(0), IntV(1), IntV(-1), T, tX}}
  \cup {Case("FACTDOUBLE", <<D(x)>>) : x \in {IntV(0), IntV(1), IntV(6), IntV(7), Num(75, 10), IntV(19), IntV(-1), tX, t4, NAe}}
  \cup {Case("MMULT", <<a, b>>) : a \in Mats, b \in Mats}
  \cup {Case(fn, <<a>>) : fn \in {"MDETERM", "TRANSPOSE"}, a \in Mats}
  \cup {Case("MUNIT", <<D(x)>>) : x \in {IntV(1), IntV(2), IntV(3), Num(5, 2), IntV(0), IntV(-1), tX, t4, NAe}}

Cases == CASE Family = "extra" -> ExtraCases
           [] Family = "more" -> MoreCases
           [] Family = "lift" -> LiftCases
           [] Family = "agg" -> AggCases \cup KthCases \cup SpCases
           [] Family = "logic" -> LogicCases \cup InfoCases
           [] Family = "math" -> Math1Cases \cup RoundCases \cup ModCases \cup CfCases \cup PowCases \cup LogCases
           [] Family = "text" -> TextCases

-----------------------------------------------------------------------------
VARIABLES c, out
vars == <<c, out>>
Pending == [k |-> "pending"]
Init == c \in Cases /\ out = Pending
Apply == /\ out = Pending
         /\ out' = IF Family = "lift" THEN LiftFn(c.fn, c.args) ELSE Fn(c.fn, c.args)
         /\ UNCHANGED c
Next == Apply
Spec == Init /\ [][Next]_vars
DoneAny == out # Pending
Done == out # Pending /\ Family # "lift"

\* ---- theorems ------------------------------------------------------------------------
IsVal(v) == v.k \in {"n", "t", "b", "e", "approx", "any", "anyerr"}
WellFormed == DoneAny => IF Family = "lift" \/ out.k = "a"
                      THEN out.k = "a" /\ \A i \in 1..Rows(out) : \A j \in 1..Cols(out) : IsVal(out.rows[i][j])
                      ELSE IsVal(out)
\* the lifted result has the stretched shape, and a scalar argument may as well be an array
\* that repeats it
LiftShape == (DoneAny /\ Family = "lift") =>
   /\ Rows(out) = MaxOf([k \in 1..Len(c.args) |-> ArgRows(c.args[k])])
   /\ Cols(out) = MaxOf([k \in 1..Len(c.args) |-> ArgCols(c.args[k])])
   /\ \A k \in 1..Len(c.args) : c.args[k].f = "v" =>
         LiftFn(c.fn, [c.args EXCEPT ![k] = Lit(<<<<c.args[k].v, c.args[k].v>>>>)]).rows[1][1] = out.rows[1][1]

\* aggregations do not depend on the order of their arguments
OrderInvariant ==
  (Done /\ c.fn \in AggNames \cup {"COUNT", "COUNTA"}) => Fn(c.fn, Reverse(c.args)) = out
\* MIN <= AVERAGE, MEDIAN <= MAX; COUNT says how many numbers the others saw
AggBracket ==
  (Done /\ c.fn = "AVERAGE" /\ out.k = "n") =>
     /\ NCmp(Fn("MIN", c.args), out) <= 0 /\ NCmp(out, Fn("MAX", c.args)) <= 0
     /\ NMul(out, IntV(Len(NumsIn(ItemsOf(c.args))))) = Fn("SUM", c.args)
VarNonNeg == (Done /\ c.fn \in {"VAR", "VAR.S", "VARP", "VAR.P"} /\ out.k = "n") => out.n >= 0
KthDual ==      \* SMALL(k) = LARGE(n + 1 - k)
  (Done /\ c.fn = "SMALL" /\ out.k = "n") =>
     LET n == Len(NumsIn(ItemsOf(<<c.args[1]>>)))
         k == CeilDiv(Coerce(Scalar(c.args[2])).n, Coerce(Scalar(c.args[2])).d)
     IN Kth("LARGE", c.args[1], D(IntV(n + 1 - k))) = out

\* rounding: ROUNDDOWN <= |x| <= ROUNDUP, ROUND is one of them, all are fixed points of each other
RoundNum == Done /\ c.fn \in {"ROUND", "ROUNDUP", "ROUNDDOWN", "TRUNC"} /\ out.k = "n" /\ Len(c.args) = 2
RoundBracket ==
  RoundNum =>
     LET x == Coerce(Scalar(c.args[1]))
         dn == Fn("ROUNDDOWN", c.args)
         up == Fn("ROUNDUP", c.args)
     IN /\ NCmp(NAbs(dn), NAbs(x)) <= 0 /\ NCmp(NAbs(x), NAbs(up)) <= 0
        /\ out \in {dn, up}
        /\ (dn = up) = (dn = x)
        /\ Fn(c.fn, <<D(out), c.args[2]>>) = out            \* idempotent
        /\ (c.fn = "TRUNC" => out = dn)
ModLaw ==      \* n = d * INT(n / d) + MOD(n, d), MOD has the sign of d and is smaller than d
  (Done /\ c.fn = "MOD" /\ out.k = "n") =>
     LET n == Coerce(Scalar(c.args[1]))   d == Coerce(Scalar(c.args[2]))
     IN /\ NAdd(NMul(d, NFloor(NDiv(n, d))), out) = n
        /\ (out.n = 0 \/ NSign(out) = NSign(d))
        /\ NCmp(NAbs(out), NAbs(d)) < 0
CeilFloor ==
  (Done /\ c.fn \in {"CEILING", "FLOOR"} /\ out.k = "n" /\ Coerce(Scalar(c.args[2])).n # 0) =>
     LET x == Coerce(Scalar(c.args[1]))   s == Coerce(Scalar(c.args[2]))
         q == NDiv(out, s)
     IN /\ NIsInt(q)                                               \* a multiple of the significance
        /\ NCmp(NAbs(NSub(out, x)), NAbs(s)) < 0                   \* less than one step away
        /\ (c.fn = "CEILING" /\ s.n > 0 => NCmp(out, x) >= 0)
        /\ (c.fn = "FLOOR" /\ s.n > 0 => NCmp(out, x) <= 0)
EvenOdd ==
  (Done /\ c.fn \in {"EVEN", "ODD"} /\ out.k = "n") =>
     LET x == Coerce(Scalar(c.args[1]))
     IN /\ NIsInt(out) /\ (out.n % 2 = 0) = (c.fn = "EVEN")
        /\ NCmp(NAbs(out), NAbs(x)) >= 0 /\ NCmp(NAbs(NSub(out, x)), IntV(2)) < 0
        /\ (x.n # 0 => NSign(out) = NSign(x))
IntLaw == (Done /\ c.fn = "INT" /\ out.k = "n") =>
     LET x == Coerce(Scalar(c.args[1]))
     IN NIsInt(out) /\ NCmp(out, x) <= 0 /\ NCmp(NSub(x, out), One) < 0

\* De Morgan, parity
Neg(a) == IF a.f = "v" /\ a.v.k = "b" THEN D(Bool(~a.v.b)) ELSE a
AllBool == \A i \in 1..Len(c.args) : c.args[i].f = "v" /\ c.args[i].v.k = "b"
DeMorgan ==
  (Done /\ c.fn = "AND" /\ AllBool) =>
     out.b = ~Fn("OR", [i \in 1..Len(c.args) |-> Neg(c.args[i])]).b
XorParity ==     \* one more TRUE flips XOR
  (Done /\ c.fn = "XOR" /\ out.k = "b") => Fn("XOR", c.args \o <<D(T)>>).b = ~out.b
KthEnds ==       \* SMALL(.., 1) is MIN and LARGE(.., 1) is MAX
  (Done /\ c.fn \in {"SMALL", "LARGE"} /\ out.k = "n" /\ Scalar(c.args[2]) = One) =>
     out = Fn(IF c.fn = "SMALL" THEN "MIN" ELSE "MAX", <<c.args[1]>>)
IfSelects ==
  (Done /\ c.fn = "IF" /\ Len(c.args) = 3) =>
     LET l == AsLogical(Scalar(c.args[1]))
     IN IF l.k = "e" THEN out = l
        ELSE out = Back(Scalar(c.args[IF l.b THEN 2 ELSE 3]))
IfsIsNestedIf ==
  (Done /\ c.fn = "IFS" /\ Len(c.args) = 4) =>
     LET s == Scalars(c.args)
         l1 == AsLogical(s[1])
     IN out = (IF l1.k = "e" THEN l1 ELSE IF l1.b THEN Back(s[2]) ELSE Fn("IFS", SubSeq(c.args, 3, 4)))
InfoPartition ==      \* exactly one of blank / number / text / logical / error
  (Done /\ c.fn = "ISBLANK") =>
     Cardinality({f \in {"ISBLANK", "ISNUMBER", "ISTEXT", "ISLOGICAL", "ISERROR"} : Fn(f, c.args).b}) = 1
ParityDual == (Done /\ c.fn = "ISEVEN" /\ out.k = "b") => Fn("ISODD", c.args).b = ~out.b

\* text decompositions
RECURSIVE SumLens(_)
SumLens(xs) == IF xs = <<>> THEN 0 ELSE Len(TextOf(Head(xs))) + SumLens(Tail(xs))

RECURSIVE CountOcc(_, _)
CountOcc(o, s) ==     \* non-overlapping occurrences, left to right
  IF s = <<>> \/ o = <<>> THEN 0
  ELSE IF IsPrefixAt(o, s, 1) THEN 1 + CountOcc(o, Drop(s, Len(o))) ELSE CountOcc(o, Tail(s))
TextScalars == Done /\ out.k = "t"
LeftRight ==      \* LEFT(s, k) & RIGHT(s, LEN(s) - k) = s
  (TextScalars /\ c.fn = "LEFT" /\ Len(c.args) = 2) =>
     LET s == TextOf(Scalar(c.args[1]))
         k == Len(out.s)
     IN out.s \o Fn("RIGHT", <<c.args[1], D(IntV(Len(s) - k))>>).s = s
MidLaw ==         \* MID(s, st, k) = LEFT(drop st - 1, k)
  (TextScalars /\ c.fn = "MID") =>
     LET s == TextOf(Scalar(c.args[1]))
         st == IntArg(Scalar(c.args[2])).n
     IN out.s = Fn("LEFT", <<D(Txt(Drop(s, Min2(Len(s), st - 1)))), c.args[3]>>).s
ReplaceLaw ==     \* LEN(REPLACE) = LEN - removed + LEN(new)
  (TextScalars /\ c.fn = "REPLACE") =>
     LET s == TextOf(Scalar(c.args[1]))
         st == IntArg(Scalar(c.args[2])).n
         k == IntArg(Scalar(c.args[3])).n
         removed == Len(Fn("MID", <<c.args[1], D(IntV(st)), D(IntV(k))>>).s)
     IN Len(out.s) = Len(s) - removed + Len(TextOf(Scalar(c.args[4])))
FindLaw ==        \* the reported position holds the text, and no earlier one from start does
  (Done /\ c.fn = "FIND" /\ out.k = "n") =>
     LET p == TextOf(Scalar(c.args[1]))
         w == TextOf(Scalar(c.args[2]))
         st == IF Len(c.args) = 2 THEN 1 ELSE IntArg(Scalar(c.args[3])).n
     IN /\ IsPrefixAt(p, w, out.n) /\ out.n >= st
        /\ \A i \in st..(out.n - 1) : ~IsPrefixAt(p, w, i)
SearchGeneralisesFind ==    \* without wild cards SEARCH is FIND on upper-cased text
  (Done /\ c.fn = "SEARCH" /\ \A i \in 1..Len(c.args) : Scalar(c.args[i]).k # "e") =>
     LET p == TextOf(Scalar(c.args[1]))
         w == TextOf(Scalar(c.args[2]))
     IN (\A i \in 1..Len(p) : p[i] \notin {42, 63, 126}) =>
          out = Fn("FIND", <<D(Txt(UpperS(p))), D(Txt(UpperS(w)))>> \o SubSeq(c.args, 3, Len(c.args)))
SubstituteLaw ==
  (TextScalars /\ c.fn = "SUBSTITUTE" /\ Len(c.args) = 3) =>
     LET s == TextOf(Scalar(c.args[1]))   o == TextOf(Scalar(c.args[2]))   nw == TextOf(Scalar(c.args[3]))
     IN /\ (o = nw => out.s = s)
        /\ Len(out.s) = Len(s) + CountOcc(o, s) * (Len(nw) - Len(o))
        /\ (Len(o) = 1 /\ FindFrom(o, nw, 1) = 0 => FindFrom(o, out.s, 1) = 0)
TrimIdempotent == (TextScalars /\ c.fn = "TRIM") => Trim(out.s) = out.s /\ FindFrom(<<32, 32>>, out.s, 1) = 0
CaseLaws == (TextScalars /\ c.fn = "UPPER") => out.s = UpperS(LowerS(out.s)) /\ Len(out.s) = Len(TextOf(Scalar(c.args[1])))
ConcatLen == (TextScalars /\ c.fn = "CONCAT") =>
     Len(out.s) = SumLens(AllItems(c.args))
TextJoinLaw ==     \* with an empty delimiter and nothing ignored TEXTJOIN is CONCAT
  (Done /\ c.fn = "TEXTJOIN" /\ Scalar(c.args[1]) = tEmpty /\ Scalar(c.args[2]) = F) =>
     out = Fn("CONCAT", SubSeq(c.args, 3, Len(c.args)))

\* ---- laws of the FnMore group ------------------------------------------------------
PctName == {"PERCENTILE", "PERCENTILE.INC", "PERCENTILE.EXC", "QUARTILE", "QUARTILE.INC", "QUARTILE.EXC"}
PercentileBracket ==     \* a percentile lies between the extremes, and is monotone in k
  (Done /\ c.fn \in PctName /\ out.k = "n") =>
     /\ NCmp(Fn("MIN", <<c.args[1]>>), out) <= 0 /\ NCmp(out, Fn("MAX", <<c.args[1]>>)) <= 0
     /\ \A k2 \in (IF c.fn \in {"PERCENTILE", "PERCENTILE.INC", "PERCENTILE.EXC"} THEN PKs ELSE QKs) :
           LET o2 == Fn(c.fn, <<c.args[1], D(k2)>>)
           IN (o2.k = "n" /\ k2.k = "n" /\ Scalar(c.args[2]).k = "n" /\ NCmp(k2, Scalar(c.args[2])) >= 0)
                 => NCmp(o2, out) >= 0
PercentileEnds ==        \* k = 0, 1/2, 1 are MIN, MEDIAN, MAX; quartiles are percentiles
  /\ (Done /\ c.fn = "PERCENTILE.INC" /\ out.k = "n" /\ Scalar(c.args[2]) = IntV(0)) => out = Fn("MIN", <<c.args[1]>>)
  /\ (Done /\ c.fn = "PERCENTILE.INC" /\ out.k = "n" /\ Scalar(c.args[2]) = IntV(1)) => out = Fn("MAX", <<c.args[1]>>)
  /\ (Done /\ c.fn \in {"PERCENTILE.INC", "PERCENTILE.EXC"} /\ out.k = "n" /\ Scalar(c.args[2]) = Num(1, 2)) =>
        out = Fn("MEDIAN", <<c.args[1]>>)
  /\ (Done /\ c.fn = "QUARTILE.INC" /\ out.k = "n" /\ Scalar(c.args[2]).k = "n") =>
        out = Fn("PERCENTILE.INC", <<c.args[1], D(Num(NTrunc(Scalar(c.args[2])).n, 4))>>)
  /\ (Done /\ c.fn = "PERCENTILE") => out = Fn("PERCENTILE.INC", c.args)
CfmName == {"CEILING.MATH", "FLOOR.MATH", "CEILING.PRECISE", "FLOOR.PRECISE", "ISO.CEILING"}
CeilFloorMathLaw ==      \* a multiple of the significance, less than one significance away, on the stated side
  (Done /\ c.fn \in CfmName /\ out.k = "n" /\ Len(c.args) >= 2) =>
     LET x == Coerce(Scalar(c.args[1]))   g == NAbs(Coerce(Scalar(c.args[2])))
         m == IF Len(c.args) = 3 THEN Coerce(Scalar(c.args[3])) ELSE Zero
         ceil == c.fn \in {"CEILING.MATH", "CEILING.PRECISE", "ISO.CEILING"}
         turned == Len(c.args) = 3 /\ m.n # 0 /\ x.n < 0
     IN g.n # 0 =>
          /\ NIsInt(NDiv(out, g))
          /\ NCmp(NAbs(NSub(out, x)), g) < 0
          /\ (IF ceil # turned THEN NCmp(out, x) >= 0 ELSE NCmp(out, x) <= 0)
IsNumMat(a) == MatErr(AsMat(a)).k = "skip"
MatrixLaws ==
  /\ (Done /\ c.fn = "MMULT" /\ out.k = "a") =>       \* shape, identity, determinant of a product
        /\ Rows(out) = Rows(AsMat(c.args[1])) /\ Cols(out) = Cols(AsMat(c.args[2]))
        /\ MMult(c.args[1], [f |-> "a", v |-> MUnit(IntV(Cols(AsMat(c.args[1]))))]) = AsMat(c.args[1])
        /\ (Rows(out) = Cols(out) /\ Rows(AsMat(c.args[1])) = Cols(AsMat(c.args[1]))) =>
              MDeterm([f |-> "a", v |-> out]) = NMul(MDeterm(c.args[1]), MDeterm(c.args[2]))
  /\ (Done /\ c.fn = "MDETERM" /\ out.k = "n") =>
        out = MDeterm([f |-> "a", v |-> Transpose(c.args[1])])
  /\ (Done /\ c.fn = "TRANSPOSE") => Transpose([f |-> "a", v |-> out]) = Transpose([f |-> "a", v |-> Transpose(c.args[1])])

Obl == (EmitObl /\ DoneAny) => PrintT("OBL " \o ToJson([fn |-> c.fn, args |-> c.args, exp |-> out]))
=============================================================================
