-------------------------------- MODULE Refs --------------------------------
(* C04 - spellings of references and what they denote.                      *)
(*                                                                          *)
(* Part 1: column letters are bijective base 26.  State: a column index;    *)
(* ColBijection over all 16 384 columns.                                    *)
(* Part 2: a *spelling* is a record                                         *)
(*   [bk, sh]      which workbook / sheet is meant (0 = the host's own)     *)
(*   [c1,r1,c2,r2] the rectangle meant                                      *)
(*   [style]       how the rectangle is written: A1 / a1 / $A$1 / A$1 /     *)
(*                 R1C1 / r1c1 / REL (R[..]C[..] offsets from the host) /   *)
(*                 RED (single cell as X:X) / ROW, $ROW, RROW (whole rows), *)
(*                 ROWFULL (A1:XFD3) / COL, $COL, CCOL (whole columns),     *)
(*                 COLFULL (A1:C1048576)                                    *)
(*   [ss]          sheet part: none / plain / lower / quoted / quotedlower  *)
(*                 (sheet 3 has an apostrophe in its title: written doubled *)
(*                 inside quotes, with and without a workbook part; sheet 4 *)
(*                 is titled TRUE - only quotes keep it from being a logical)*)
(*   [bs]          workbook part: none / file / dirfile / id                *)
(*   [hc, hr]      the host cell (for REL)                                  *)
(* Denote(sp) is the triple <<bk, sh, normalised rectangle>>; two spellings *)
(* must get the same identifier iff they denote the same triple.            *)
EXTENDS Integers, Sequences, FiniteSets, TLC, Json

CONSTANTS EmitObl, Cols, Rows
Hosts == {<<2, 2>>, <<30, 5>>}      \* host cells for the relative spellings
MaxCol == 16384
MaxRow == 1048576

\* ---- part 1: letters -----------------------------------------------------------
RECURSIVE Idx2Col(_)
Idx2Col(n) ==    \* n >= 1 -> sequence of letters 1..26
  LET q == (n - 1) \div 26   r == (n - 1) % 26
  IN (IF q > 0 THEN Idx2Col(q) ELSE <<>>) \o <<r + 1>>
RECURSIVE Col2Idx(_)
Col2Idx(s) == IF s = <<>> THEN 0 ELSE 26 * Col2Idx(SubSeq(s, 1, Len(s) - 1)) + s[Len(s)]

\* ---- part 2: spellings ------------------------------------------------------------
RectOK(c1, r1, c2, r2) == c1 <= c2 /\ r1 <= r2
Single(sp) == sp.c1 = sp.c2 /\ sp.r1 = sp.r2
WholeRows(sp) == sp.c1 = 1 /\ sp.c2 = MaxCol
WholeCols(sp) == sp.r1 = 1 /\ sp.r2 = MaxRow

StyleOK(sp) ==
  CASE sp.style \in {"A1", "a1", "$A$1", "A$1", "R1C1", "r1c1"} -> TRUE
    [] sp.style = "RED" -> Single(sp)
    [] sp.style = "REL" ->      \* offsets are non-zero integers in the code's grammar
         /\ sp.c1 # sp.hc /\ sp.r1 # sp.hr /\ sp.c2 # sp.hc /\ sp.r2 # sp.hr
    [] sp.style \in {"ROW", "$ROW", "RROW", "ROWFULL"} -> WholeRows(sp) /\ ~WholeCols(sp)
    [] sp.style \in {"COL", "$COL", "CCOL", "COLFULL"} -> WholeCols(sp) /\ ~WholeRows(sp)
    [] OTHER -> FALSE
\* workbooks: 0 the host's own (BOOK.XLSX), 1 OTHER.XLSX (also external link [1]),
\* 2 a file whose name starts with digits (2020 DATA.XLSX); written with a directory
\* (dirfile: 'D/[OTHER.XLSX]SHEET1'!A1) it is another workbook than the same name without
QualOK(sp) ==
  /\ (sp.ss = "none" => sp.sh = 0 /\ sp.bs = "none")     \* no sheet part: the host's sheet
  /\ (sp.bs = "none" => sp.bk = 0)                        \* no workbook part: the host's workbook
  /\ (sp.bs = "id" => sp.bk = 1)                          \* [1] is the first external link
  /\ (sp.bs = "dirfile" => sp.bk \in {1, 2})

Denote(sp) == <<sp.bk + (IF sp.bs = "dirfile" THEN 10 ELSE 0), sp.sh, sp.c1, sp.r1, sp.c2, sp.r2>>

Styles == {"A1", "a1", "$A$1", "A$1", "R1C1", "r1c1", "RED", "REL", "ROW", "$ROW", "RROW",
           "ROWFULL", "COL", "$COL", "CCOL", "COLFULL"}
SheetStyles == {"none", "plain", "lower", "quoted", "quotedlower"}
BookStyles == {"none", "file", "dirfile", "id"}

VARIABLES mode, col, sp
vars == <<mode, col, sp>>
NoSp == [style |-> "-"]

Init ==
  \/ /\ mode = "col" /\ col \in 1..MaxCol /\ sp = NoSp
  \/ /\ mode = "sp" /\ col = 0
     /\ sp \in {x \in [bk : 0..2, sh : 0..4, c1 : Cols, r1 : Rows, c2 : Cols, r2 : Rows,
                       style : Styles, ss : SheetStyles, bs : BookStyles,
                       hc : {h[1] : h \in Hosts}, hr : {h[2] : h \in Hosts}] :
                 /\ RectOK(x.c1, x.r1, x.c2, x.r2) /\ StyleOK(x) /\ QualOK(x)
                 /\ <<x.hc, x.hr>> \in Hosts
                 /\ (x.style # "REL" => <<x.hc, x.hr>> = CHOOSE h \in Hosts : TRUE)}
Next == UNCHANGED vars
Spec == Init /\ [][Next]_vars

ColBijection == mode = "col" =>
   /\ Col2Idx(Idx2Col(col)) = col
   /\ Len(Idx2Col(col)) \in 1..3
   /\ \A i \in 1..Len(Idx2Col(col)) : Idx2Col(col)[i] \in 1..26
\* the last column is XFD
LastCol == (mode = "col" /\ col = MaxCol) => Idx2Col(col) = <<24, 6, 4>>
\* a relative spelling denotes the host cell shifted by its offsets
RelAbs == (mode = "sp" /\ sp.style = "REL") =>
   LET o == [dc1 |-> sp.c1 - sp.hc, dr1 |-> sp.r1 - sp.hr, dc2 |-> sp.c2 - sp.hc, dr2 |-> sp.r2 - sp.hr]
   IN <<sp.hc + o.dc1, sp.hr + o.dr1, sp.hc + o.dc2, sp.hr + o.dr2>> = <<sp.c1, sp.r1, sp.c2, sp.r2>>

Obl == EmitObl =>
   (IF mode = "col" THEN PrintT("OBL " \o ToJson([k |-> "col", n |-> col, letters |-> Idx2Col(col)]))
    ELSE PrintT("OBL " \o ToJson([k |-> "sp", sp |-> sp, den |-> Denote(sp)])))
=============================================================================
