CONSTANTS
  SelfPath = TRUE
SPECIFICATION CSpec
INVARIANT CompileOK
INVARIANT Partial
INVARIANT FixedPoint
INVARIANT NoFireOverridden
PROPERTY FireOnce
POSTCONDITION EmitSem
CHECK_DEADLOCK FALSE
