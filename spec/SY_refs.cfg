SPECIFICATION Spec
CONSTANTS
  Alphabet = {"A1", "B2:C3", "1", "_", ",", "(", ")", "SUM(", "+", "-", "%"}
  MaxLen = 6
  EmitObl = TRUE
INVARIANT TypeOK
INVARIANT Agree
INVARIANT RpnIsPostOrder
INVARIANT RenderFix
INVARIANT RedundantParens
INVARIANT Obl
CHECK_DEADLOCK FALSE
