SPECIFICATION Spec
CONSTANTS
  EmitObl = FALSE
  Group = "wide"
INVARIANT Total
INVARIANT ErrorKept
INVARIANT Obl
CHECK_DEADLOCK FALSE
