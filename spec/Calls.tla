------------------------------- MODULE Calls -------------------------------
(* C11 - the calling contract of the worksheet-function table.              *)
(*                                                                          *)
(* FnTable lists every name of the table with its admissible argument       *)
(* counts (Excel's signature) and how it treats error values:               *)
(*   mode "all"   every argument is consumed                                *)
(*   mode "pos"   only the positions in pos are consumed (look-ups take an  *)
(*                element out of their table, IFS / SWITCH stop early)      *)
(*   mode "if"    IF: the condition, and the branch it selects              *)
(*   mode "none"  a documented error-handling / inspection function         *)
(*   first        (T) an array argument is read through its first element   *)
(* A call is a function of the table with a tuple of argument descriptors   *)
(* (scalars of every kind typed directly, a reference to a blank cell,      *)
(* referenced ranges, array literals; with and without error values).       *)
(* The step Call lets the implementation answer; the contract says which    *)
(* answers are allowed:                                                     *)
(*   Total        the answer is an Excel value - never an exception, a      *)
(*                non-finite number or a foreign object                     *)
(*   ErrorKept    when a consumed argument holds an error value the answer  *)
(*                is an error value (or an array holding one)               *)
(* TLC enumerates the calls (the obligations replayed on the real table)    *)
(* and CallsTrace validates the recorded answers against Allowed.           *)
EXTENDS Naturals, Sequences, FiniteSets, TLC, Json

CONSTANTS EmitObl, Group        \* Group: which part of the table this run covers

Desc == {"num", "zero", "neg", "frac", "big", "text", "numtext", "empty", "true", "false",
         "blank", "na", "div0", "rnum", "rcol", "rerr", "rmix", "lit", "literr",
         "datetext", "farDate"}        \* text that reads as a date: inside / beyond the calendar
RefDesc == {"blank", "rnum", "rcol", "rerr", "rmix"}
ErrDesc == {"na", "div0", "rerr", "literr"}
\* what IF makes of a condition: TRUE / FALSE / "x" (an error, an array, or not settled here)
Truth(d) == CASE d \in {"num", "neg", "frac", "big", "true"} -> "T"
              [] d \in {"zero", "false", "blank"} -> "F"
              [] OTHER -> "x"

F(n, lo, hi, mode, pos) == [n |-> n, lo |-> lo, hi |-> hi, mode |-> mode, pos |-> pos, ref |-> FALSE,
                            first |-> FALSE]
A(n, lo, hi) == F(n, lo, hi, "all", {})
Many == 99

FnTable == <<
  A("ABS", 1, 1), A("ACOS", 1, 1), A("ACOSH", 1, 1), A("ACOT", 1, 1), A("ACOTH", 1, 1),
  A("ADDRESS", 2, 5), A("AND", 1, Many), A("ARABIC", 1, 1), A("ASIN", 1, 1), A("ASINH", 1, 1),
  A("ATAN", 1, 1), A("ATAN2", 2, 2), A("ATANH", 1, 1), A("AVERAGE", 1, Many), A("AVERAGEA", 1, Many),
  F("AVERAGEIF", 2, 3, "none", {}), A("BIN2DEC", 1, 1), A("BIN2HEX", 1, 2), A("BIN2OCT", 1, 2),
  A("CEILING", 2, 2), A("CEILING.MATH", 1, 3), A("CEILING.PRECISE", 1, 2), A("CHAR", 1, 1),
  A("CODE", 1, 1), [F("COLUMN", 0, 1, "none", {}) EXCEPT !.ref = TRUE], A("CONCAT", 1, Many),
  A("CONCATENATE", 1, Many), A("CORREL", 2, 2), A("COS", 1, 1), A("COSH", 1, 1), A("COT", 1, 1),
  A("COTH", 1, 1), F("COUNT", 1, Many, "none", {}), F("COUNTA", 1, Many, "none", {}),
  F("COUNTBLANK", 1, 1, "none", {}), F("COUNTIF", 2, 2, "none", {}), A("CSC", 1, 1), A("CSCH", 1, 1),
  A("CUMIPMT", 6, 6), A("DATE", 3, 3), A("DATEDIF", 3, 3), A("DATEVALUE", 1, 1), A("DAY", 1, 1),
  A("DEC2BIN", 1, 2), A("DEC2HEX", 1, 2), A("DEC2OCT", 1, 2), A("DECIMAL", 2, 2), A("DEGREES", 1, 1),
  A("EDATE", 2, 2), A("EVEN", 1, 1), A("EXP", 1, 1), A("FACT", 1, 1), A("FACTDOUBLE", 1, 1),
  A("FALSE", 0, 0), F("FILTER", 2, 3, "pos", {2}), A("FIND", 2, 3), A("FLOOR", 2, 2),
  A("FLOOR.MATH", 1, 3), A("FLOOR.PRECISE", 1, 2), A("FORECAST", 3, 3), A("FORECAST.LINEAR", 3, 3),
  A("FV", 3, 5), A("GCD", 1, Many), A("HEX2BIN", 1, 2), A("HEX2DEC", 1, 1), A("HEX2OCT", 1, 2),
  F("HLOOKUP", 3, 4, "pos", {1, 3, 4}), A("HOUR", 1, 1), F("IF", 2, 3, "if", {}),
  F("IFERROR", 2, 2, "none", {}), F("IFNA", 2, 2, "none", {}), F("IFS", 2, 4, "pos", {1}),
  F("INDEX", 2, 4, "pos", {2, 3, 4}), A("INT", 1, 1), A("IPMT", 4, 6), A("IRR", 1, 2),
  F("ISBLANK", 1, 1, "none", {}), F("ISERR", 1, 1, "none", {}), F("ISERROR", 1, 1, "none", {}),
  A("ISEVEN", 1, 1), F("ISLOGICAL", 1, 1, "none", {}), F("ISNA", 1, 1, "none", {}),
  F("ISNONTEXT", 1, 1, "none", {}), F("ISNUMBER", 1, 1, "none", {}), A("ISO.CEILING", 1, 2),
  A("ISODD", 1, 1), A("ISOWEEKNUM", 1, 1), F("ISTEXT", 1, 1, "none", {}), A("LARGE", 2, 2),
  A("LCM", 1, Many), A("LEFT", 1, 2), A("LEN", 1, 1), A("LN", 1, 1), A("LOG", 1, 2), A("LOG10", 1, 1),
  F("LOOKUP", 2, 3, "pos", {1}), A("LOWER", 1, 1), F("MATCH", 2, 3, "pos", {1, 3}), A("MAX", 1, Many),
  A("MAXA", 1, Many), A("MDETERM", 1, 1), A("MEDIAN", 1, Many), A("MID", 3, 3), A("MIN", 1, Many),
  A("MINA", 1, Many), A("MINUTE", 1, 1), A("MINVERSE", 1, 1), A("MMULT", 2, 2), A("MOD", 2, 2),
  A("MONTH", 1, 1), A("MROUND", 2, 2), A("MUNIT", 1, 1), A("NA", 0, 0), A("NORM.DIST", 4, 4),
  A("NORM.INV", 3, 3), A("NORM.S.DIST", 2, 2), A("NORM.S.INV", 1, 1), A("NORMDIST", 4, 4),
  A("NORMINV", 3, 3), A("NORMSDIST", 1, 1), A("NORMSINV", 1, 1), A("NOT", 1, 1), A("NOW", 0, 0),
  A("NPER", 3, 5), A("NPV", 2, Many), A("OCT2BIN", 1, 2), A("OCT2DEC", 1, 1), A("OCT2HEX", 1, 2),
  A("ODD", 1, 1), A("OR", 1, Many), A("PERCENTILE", 2, 2), A("PERCENTILE.EXC", 2, 2),
  A("PERCENTILE.INC", 2, 2), A("PI", 0, 0), A("PMT", 3, 5), A("POWER", 2, 2), A("PPMT", 4, 6),
  A("PRODUCT", 1, Many), A("PV", 3, 5), A("QUARTILE", 2, 2), A("QUARTILE.EXC", 2, 2),
  A("QUARTILE.INC", 2, 2), A("RADIANS", 1, 1), A("RAND", 0, 0), A("RANDBETWEEN", 2, 2),
  A("RATE", 3, 6), A("REPLACE", 4, 4), A("RIGHT", 1, 2), A("ROMAN", 1, 2), A("ROUND", 2, 2),
  A("ROUNDDOWN", 2, 2), A("ROUNDUP", 2, 2), [F("ROW", 0, 1, "none", {}) EXCEPT !.ref = TRUE],
  A("SEARCH", 2, 3), A("SEC", 1, 1), A("SECH", 1, 1), A("SECOND", 1, 1), A("SIGN", 1, 1),
  A("SIN", 1, 1), A("SINGLE", 1, 1), A("SINH", 1, 1), A("SLOPE", 2, 2), A("SMALL", 2, 2),
  A("SQRT", 1, 1), A("SQRTPI", 1, 1), A("STDEV", 1, Many), A("STDEV.P", 1, Many),
  A("STDEV.S", 1, Many), A("STDEVA", 1, Many), A("STDEVP", 1, Many), A("STDEVPA", 1, Many),
  A("SUBSTITUTE", 3, 4), A("SUM", 1, Many), F("SUMIF", 2, 3, "none", {}), A("SUMPRODUCT", 1, Many),
  A("SUMSQ", 1, Many), F("SWITCH", 3, 5, "pos", {1}), [A("T", 1, 1) EXCEPT !.first = TRUE], A("TAN", 1, 1), A("TANH", 1, 1),
  A("TEXT", 2, 2), A("TEXTJOIN", 3, Many), A("TIME", 3, 3), A("TIMEVALUE", 1, 1), A("TODAY", 0, 0),
  A("TRANSPOSE", 1, 1), A("TRIM", 1, 1), A("TRUE", 0, 0), A("TRUNC", 1, 2), A("UPPER", 1, 1),
  A("VALUE", 1, 1), A("VAR", 1, Many), A("VAR.P", 1, Many), A("VAR.S", 1, Many), A("VARA", 1, Many),
  A("VARP", 1, Many), A("VARPA", 1, Many), F("VLOOKUP", 3, 4, "pos", {1, 3, 4}), A("WEEKDAY", 1, 2),
  A("WEEKNUM", 1, 2), A("XIRR", 2, 3), A("XNPV", 3, 3), A("XOR", 1, Many), A("YEAR", 1, 1),
  A("YEARFRAC", 2, 3) >>

\* names of the table that are not worksheet functions a user can call with values
\* (ARRAY / ARRAYROW build array literals, *DUMMYFUNCTION is a placeholder)
NotCalled == {"ARRAY", "ARRAYROW", "DUMMYFUNCTION", "__XLUDF.DUMMYFUNCTION"}

\* ---- signature classes: functions with the same contract share their cases -------
SigOf(f) == [lo |-> f.lo, hi |-> f.hi, mode |-> f.mode, pos |-> f.pos, ref |-> f.ref, first |-> f.first]
Sigs == {SigOf(FnTable[i]) : i \in 1..Len(FnTable)}
\* argument counts explored: all admissible ones, variadic functions up to lo + 2
Arities(s) == {n \in s.lo..s.hi : n <= s.lo + 2}

D0(s) == IF s.ref THEN RefDesc ELSE Desc
Default(s) == IF s.ref THEN "rnum" ELSE "num"
\* all tuples up to 3 arguments; beyond that every pair of positions takes every pair
\* of descriptors while the other arguments are plain numbers
Tuples(s, n) ==
  IF n <= 3 THEN [1..n -> D0(s)]
  ELSE {[k \in 1..n |-> IF k = i THEN a ELSE IF k = j THEN b ELSE Default(s)] :
           i \in 1..n, j \in 1..n, a \in D0(s), b \in D0(s)}

Consumed(s, t) ==
  CASE s.mode = "all" -> 1..Len(t)
    [] s.mode = "pos" -> s.pos \cap (1..Len(t))
    [] s.mode = "none" -> {}
    [] s.mode = "if" ->
         {1} \cup (IF Truth(t[1]) = "T" THEN {2}
                   ELSE IF Truth(t[1]) = "F" /\ Len(t) = 3 THEN {3} ELSE {})
\* (first: the function reads the first element of an array only - the arrays of the
\*  descriptors start with a number)
MustErr(s, t) == \E i \in Consumed(s, t) : t[i] \in (IF s.first THEN {"na", "div0"} ELSE ErrDesc)

Answers == {"number", "text", "logical", "error", "blank", "array", "array-with-error",
            "raise", "nonfinite", "foreign"}
ExcelValues == {"number", "text", "logical", "error", "blank", "array", "array-with-error"}
Allowed(s, t) == IF MustErr(s, t) THEN {"error", "array-with-error"} ELSE ExcelValues

-----------------------------------------------------------------------------
VARIABLES sig, args, ans
vars == <<sig, args, ans>>

InGroup(s) == CASE Group = "small" -> s.lo <= 2 /\ s.hi <= 2
                [] Group = "three" -> ~(s.lo <= 2 /\ s.hi <= 2) /\ s.lo <= 3
                [] Group = "wide" -> s.lo > 3
                [] OTHER -> TRUE
Init == /\ sig \in {s \in Sigs : InGroup(s)}
        /\ \E n \in Arities(sig) : args \in Tuples(sig, n)
        /\ ans = "pending"
\* the implementation answers; the contract admits exactly the answers of Allowed
Call == ans = "pending" /\ ans' \in Allowed(sig, args) /\ UNCHANGED <<sig, args>>
Next == Call
Spec == Init /\ [][Next]_vars

Total == ans # "pending" => ans \in ExcelValues
ErrorKept == (ans # "pending" /\ MustErr(sig, args)) => ans \in {"error", "array-with-error"}
\* the table is well formed: distinct names, sane counts, positions inside the counts
TableOK ==
  /\ \A i, j \in 1..Len(FnTable) : FnTable[i].n = FnTable[j].n => i = j
  /\ \A i \in 1..Len(FnTable) : LET f == FnTable[i] IN
        f.lo <= f.hi /\ (f.mode = "pos" => f.pos # {} /\ \A p \in f.pos : p <= f.hi)
ASSUME TableOK
ASSUME EmitObl => PrintT("TABLE " \o ToJson(FnTable))

Obl == (EmitObl /\ ans = "pending") =>
          PrintT("OBL " \o ToJson([sig |-> sig, args |-> args, mustErr |-> MustErr(sig, args)]))
=============================================================================
