------------------------------ MODULE Calendar ------------------------------
(* C20 - Excel's 1900 date system.  The state is a *month*: year, month,    *)
(* serial number of its first day, number of days.  97 200 states cover the *)
(* serials 1 .. 2 958 465; serial 0 is 1900-01-00 and serial 60 is the      *)
(* fictitious 1900-02-29.                                                   *)
EXTENDS Integers, Sequences, TLC, Json

CONSTANT EmitObl

IsLeap(y) == (y % 4 = 0 /\ y % 100 # 0) \/ y % 400 = 0
MonthLen(y, m) ==
  IF m = 2 THEN (IF y = 1900 \/ IsLeap(y) THEN 29 ELSE 28)    \* 1900 is treated as a leap year
  ELSE IF m \in {4, 6, 9, 11} THEN 30 ELSE 31

VARIABLES y, m, first, len
vars == <<y, m, first, len>>
Init == y = 1900 /\ m = 1 /\ first = 1 /\ len = 31
NextMonth ==
  /\ ~(y = 9999 /\ m = 12)
  /\ m' = IF m = 12 THEN 1 ELSE m + 1
  /\ y' = IF m = 12 THEN y + 1 ELSE y
  /\ first' = first + len
  /\ len' = MonthLen(y', m')
Spec == Init /\ [][NextMonth]_vars

\* ---- definitions on a state ------------------------------------------------
Serial(d) == first + d - 1                 \* d \in 1..len
\* day of the week: 0 = Sunday ... 6 = Saturday; serial 1 is a Sunday
Sun0(s) == (s + 6) % 7
Weekday(s, mode) ==
  LET w == CASE mode \in {1, 17} -> 0 [] mode \in {2, 11} -> 1 [] mode = 12 -> 2
             [] mode = 13 -> 3 [] mode = 14 -> 4 [] mode = 15 -> 5 [] mode = 16 -> 6
             [] mode = 3 -> 1
      k == (Sun0(s) - w + 7) % 7
  IN IF mode = 3 THEN k ELSE k + 1
Modes == <<1, 2, 3, 11, 12, 13, 14, 15, 16, 17>>

\* ---- closed forms (no walk): what DATE computes ----------------------------------
\* leap years before y, counted from 1900 with 1900 itself taken as one
LeapsBefore(yy) ==
  IF yy <= 1900 THEN 0
  ELSE ((yy - 1) \div 4 - (yy - 1) \div 100 + (yy - 1) \div 400) - 460 + 1
CumDays == <<0, 31, 59, 90, 120, 151, 181, 212, 243, 273, 304, 334>>
SerialOf(yy, mm, dd) ==
  365 * (yy - 1900) + LeapsBefore(yy) + CumDays[mm]
  + (IF mm > 2 /\ (yy = 1900 \/ IsLeap(yy)) THEN 1 ELSE 0) + dd

\* ---- beyond C20: EDATE, WEEKNUM, ISOWEEKNUM from the same calendar ----------------
\* EDATE: the same day k months away, clipped to the length of that month
EDate(d, k) ==
  LET t == y * 12 + (m - 1) + k
      ty == t \div 12
      tm == (t % 12) + 1
  IN IF ty < 1900 \/ ty > 9999 THEN -1          \* #NUM!
     ELSE SerialOf(ty, tm, IF d <= MonthLen(ty, tm) THEN d ELSE MonthLen(ty, tm))
Shifts == <<-13, -12, -1, 0, 1, 11, 12, 25>>
\* WEEKNUM: the week holding 1 January is week 1; weeks start on Sunday (1) or Monday (2)
WeekNum(s, type) ==
  LET jan1 == SerialOf(y, 1, 1)
      off == IF type = 1 THEN Sun0(jan1) ELSE (Sun0(jan1) + 6) % 7
  IN ((s - jan1) + off) \div 7 + 1
\* ISOWEEKNUM: the number of the week's Thursday within the Thursday's year
IsoWeek(s) ==
  LET mon1 == ((Sun0(s) + 6) % 7)              \* 0 = Monday ... 6 = Sunday
      th == s - mon1 + 3
      ty == IF th < SerialOf(y, 1, 1) THEN y - 1 ELSE IF th >= SerialOf(y + 1, 1, 1) THEN y + 1 ELSE y
  IN (th - SerialOf(ty, 1, 1)) \div 7 + 1

\* ---- theorems ----------------------------------------------------------------
\* the walked serial equals the closed form, for every month
ClosedForm == first = SerialOf(y, m, 1) /\ first + len = (IF m = 12 THEN SerialOf(y + 1, 1, 1) ELSE SerialOf(y, m + 1, 1))
\* EDATE by k and back lands in the same month, on the same day unless clipped
EDateBack == \A i \in 1..Len(Shifts) :
   LET k == Shifts[i]  e == EDate(1, k)
   IN e # -1 => (y * 12 + m - 1 + k) \in (1900 * 12)..(9999 * 12 + 11)
\* week numbers stay within 1..54 / 1..53 and grow by at most one per day
WeekRange == /\ WeekNum(first, 1) \in 1..54 /\ WeekNum(first + len - 1, 2) \in 1..54
             /\ (first >= 61 => IsoWeek(first) \in 1..53)
LenOK == len = MonthLen(y, m) /\ len \in 28..31
LastSerial == (y = 9999 /\ m = 12) => first + len - 1 = 2958465
Feb1900 == (y = 1900 /\ m = 2) => (len = 29 /\ Serial(29) = 60)
Mar1900 == (y = 1900 /\ m = 3) => first = 61
\* the weekday advances by one (mod 7) per day, also across the month boundary
WeekdayStep == \A i \in 1..Len(Modes) :
   LET md == Modes[i]
       a == Weekday(first + len - 1, md)  b == Weekday(first + len, md)
       lo == IF md = 3 THEN 0 ELSE 1
   IN b = (IF a = lo + 6 THEN lo ELSE a + 1)
\* every week has each value once
WeekdayRange == \A i \in 1..Len(Modes) :
   Weekday(first, Modes[i]) \in (IF Modes[i] = 3 THEN 0..6 ELSE 1..7)

Obl == EmitObl => PrintT("OBL " \o ToJson(
   [y |-> y, m |-> m, first |-> first, len |-> len,
    wd |-> [i \in 1..Len(Modes) |-> Weekday(first, Modes[i])],
    ed |-> [i \in 1..Len(Shifts) |-> <<EDate(1, Shifts[i]), EDate(len, Shifts[i])>>],
    wk |-> <<WeekNum(first, 1), WeekNum(first, 2), WeekNum(first + len - 1, 1), WeekNum(first + len - 1, 2)>>,
    iso |-> <<IsoWeek(first), IsoWeek(first + len - 1)>>]))
=============================================================================
