CONSTANTS
  EmitObl = TRUE
SPECIFICATION Spec
INVARIANT Inverse
INVARIANT Obl
CHECK_DEADLOCK FALSE
