SPECIFICATION Spec
CONSTANTS
  EmitObl = FALSE
  Group = "small"
INVARIANT Total
INVARIANT ErrorKept
INVARIANT Obl
CHECK_DEADLOCK FALSE
