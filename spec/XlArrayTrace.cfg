SPECIFICATION TSpec
CONSTANTS
  EmitObl = FALSE
POSTCONDITION Consumed
CHECK_DEADLOCK FALSE
