CONSTANTS
  SelfPath = TRUE
SPECIFICATION LSpec
INVARIANT LPartial
PROPERTY LTotal
POSTCONDITION EmitLazy
CHECK_DEADLOCK FALSE
