SPECIFICATION Spec
CONSTANTS
  Chars = {61, 34, 35, 97, 65, 78, 47, 49, 43}
  MaxLen = 4
INVARIANT RoundTripOK
INVARIANT PlainUntouched
INVARIANT Obl
CHECK_DEADLOCK FALSE
