---------------------------- MODULE RectsTrace ----------------------------
(* Trace validation for C06: events [op, a, b, res] recorded from the real  *)
(* Ranges class (random multi-area operands on two sheets).  Each event is  *)
(* one Apply step of Rects whose logged result must satisfy the ideal       *)
(* cell-set relation for that operator.                                     *)
EXTENDS Rects, IOUtils, TLCExt

Events == JsonDeserialize(IOEnv.TRACE_FILE)
VARIABLE l

Conforms(e) ==
  CASE e.op = "and" -> e.res.k = "list" /\ CellSet(e.res.l) = IdealInterCells(e.a, e.b)
    [] e.op = "or" -> e.res.k = "list" /\ e.res.l = IdealUnion(e.a, e.b)
    [] e.op = "add" -> (IF IdealBound(e.a, e.b).k = "err" THEN e.res.k = "err"
                        ELSE e.res.k = "list" /\ e.res.l = <<IdealBound(e.a, e.b).r>>)
    [] e.op = "sub" -> e.res.k = "list" /\ CellSet(e.res.l) = IdealDiffCells(e.a, e.b) /\ NoDup(e.res.l)
    [] e.op = "simplify" -> e.res.k = "list" /\ CellSet(e.res.l) = CellSet(e.a) /\ NoDup(e.res.l)

\* the implementation-shaped model must explain the logged result as well
\* (same cells; for | and : the very same area list)
ModelAgrees(e) ==
  CASE e.op = "and" -> CellSet(ImplAnd(e.a, e.b)) = CellSet(e.res.l)
    [] e.op = "or" -> ImplOr(e.a, e.b) = e.res.l
    [] e.op = "add" -> (IF ImplAdd(e.a, e.b).k = "err" THEN e.res.k = "err"
                        ELSE e.res.k = "list" /\ <<ImplAdd(e.a, e.b).r>> = e.res.l)
    [] e.op = "sub" -> e.res.k = "list" /\ ImplSub(e.a, e.b) = e.res.l
    [] e.op = "simplify" -> e.res.k = "list" /\ CellSet(ImplSimplify(e.a)) = CellSet(e.res.l)

TInit == l = 1 /\ op = "trace" /\ A = <<>> /\ B = <<>> /\ res = Pending

TStep == /\ l <= Len(Events)
         /\ (IF Conforms(Events[l]) THEN TRUE ELSE PrintT(<<"REJECT", l, "ideal">>))
         /\ (IF ModelAgrees(Events[l]) THEN TRUE ELSE PrintT(<<"REJECT", l, "model">>))
         /\ l' = l + 1
         /\ UNCHANGED vars

TSpec == TInit /\ [][TStep]_<<vars, l>>
Consumed == TLCGet("stats").diameter = Len(Events) + 1
=============================================================================
