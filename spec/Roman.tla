-------------------------------- MODULE Roman --------------------------------
(* C20 - ROMAN / ARABIC.  Val is the subtractive valuation of a numeral over *)
(* M D C L X V I (a symbol smaller than its right neighbour is subtracted);  *)
(* Classic(n) is the classic numeral.  Trace part: recorded results of      *)
(* ROMAN(n, form) must have Val = n, and be Classic(n) for form 0.          *)
EXTENDS Integers, Sequences, TLC, Json, IOUtils, TLCExt

SymVal(c) == CASE c = "M" -> 1000 [] c = "D" -> 500 [] c = "C" -> 100 [] c = "L" -> 50
               [] c = "X" -> 10 [] c = "V" -> 5 [] c = "I" -> 1
RECURSIVE Val(_)
Val(s) ==    \* s: sequence of one-letter strings
  IF s = <<>> THEN 0
  ELSE IF Len(s) >= 2 /\ SymVal(s[1]) < SymVal(s[2]) THEN Val(Tail(s)) - SymVal(s[1])
  ELSE Val(Tail(s)) + SymVal(s[1])

Table == << <<1000, <<"M">>>>, <<900, <<"C", "M">>>>, <<500, <<"D">>>>, <<400, <<"C", "D">>>>,
            <<100, <<"C">>>>, <<90, <<"X", "C">>>>, <<50, <<"L">>>>, <<40, <<"X", "L">>>>,
            <<10, <<"X">>>>, <<9, <<"I", "X">>>>, <<5, <<"V">>>>, <<4, <<"I", "V">>>>, <<1, <<"I">>>> >>
RECURSIVE ClassicFrom(_, _)
ClassicFrom(n, i) ==
  IF n = 0 THEN <<>>
  ELSE IF Table[i][1] <= n THEN Table[i][2] \o ClassicFrom(n - Table[i][1], i)
  ELSE ClassicFrom(n, i + 1)
Classic(n) == ClassicFrom(n, 1)

VARIABLES n, ti
Init == n = 0 /\ ti = 0
Next == n < 3999 /\ n' = n + 1 /\ UNCHANGED ti
Spec == Init /\ [][Next]_<<n, ti>>
ClassicInverse == Val(Classic(n)) = n

\* ---- trace part ---------------------------------------------------------------
Traces == JsonDeserialize(IOEnv.TRACE_FILE)     \* [n, form, res (letters)]
TInit == ti = 1 /\ n = 0
TStep ==
  /\ ti <= Len(Traces)
  /\ LET t == Traces[ti]
     IN /\ (IF Val(t.res) = t.n THEN TRUE ELSE PrintT(<<"REJECT", ti, "value">>))
        /\ (IF t.form # 0 \/ t.res = Classic(t.n) THEN TRUE ELSE PrintT(<<"REJECT", ti, "not-classic">>))
  /\ ti' = ti + 1 /\ UNCHANGED n
TSpec == TInit /\ [][TStep]_<<n, ti>>
Consumed == TLCGet("stats").diameter = Len(Traces) + 1
=============================================================================
