------------------------------ MODULE Assemble ------------------------------
(* C03 / C07 / C08 - how a referenced range is wired to the cells it covers.  *)
(* ExcelModel.assemble() / _assemble_ranges() and RangesAssembler (push, add) *)
(* of formulas/excel/__init__.py and formulas/cell.py, one action per step.   *)
(*                                                                            *)
(* A layout is one sheet of NC x NR positions with                            *)
(*   pop   the populated single cells,                                        *)
(*   blk   array-formula blocks (multi-cell nodes, disjoint from pop),        *)
(*   req   the rectangles some formula refers to and nothing computes (the    *)
(*         data nodes without predecessor): each gets a RangesAssembler.      *)
(* For every requested rectangle the code                                     *)
(*   1. starts with missing = its positions,                                  *)
(*   2. push(block) for the blocks, then push(cells): what is covered leaves  *)
(*      `missing` and becomes an input (and, when it lies wholly inside, an   *)
(*      output of the inverse assembler),                                     *)
(*   3. sorts the assemblers by the number of missing positions (ties in set  *)
(*      iteration order - nondeterministic here) and add()s them in turn: a   *)
(*      missing position that already has a (blank) node becomes an input; at *)
(*      most `Compact` others get a blank node of their own, more are read    *)
(*      from the solution (SELF).                                             *)
(* The ideal: every position of the rectangle is wired exactly once, to the   *)
(* populated cell, to the block that covers it, or to a blank - whatever the  *)
(* order of the steps.                                                        *)
EXTENDS Integers, Sequences, FiniteSets, SequencesExt, TLC, Json

CONSTANTS NC, NR, MaxReq, MaxBlk, Compact, EmitObl

Pos == (1..NC) \X (1..NR)
Rect == {r \in [c1 : 1..NC, c2 : 1..NC, r1 : 1..NR, r2 : 1..NR] : r.c1 <= r.c2 /\ r.r1 <= r.r2}
CellsOf(r) == {p \in Pos : r.c1 <= p[1] /\ p[1] <= r.c2 /\ r.r1 <= p[2] /\ p[2] <= r.r2}
Size(r) == Cardinality(CellsOf(r))
BlockRects == {r \in Rect : Size(r) = 2}

Disjoint(S) == \A a \in S : \A b \in S : a # b => CellsOf(a) \cap CellsOf(b) = {}
BlkCells(B) == UNION {CellsOf(b) : b \in B}

Layouts ==
  {[pop |-> P, blk |-> B, req |-> Q] :
      P \in SUBSET Pos,
      B \in {X \in SUBSET BlockRects : Cardinality(X) <= MaxBlk /\ Disjoint(X)},
      Q \in {X \in SUBSET Rect : Cardinality(X) >= 1 /\ Cardinality(X) <= MaxReq}}

\* a requested rectangle is a node nothing computes: not a populated cell, not a block
WellFormedLayout(l) ==
  /\ l.pop \cap BlkCells(l.blk) = {}
  /\ \A q \in l.req : q \notin l.blk /\ ~(Size(q) = 1 /\ CellsOf(q) \subseteq l.pop)

VARIABLES lay, ras, nodes, todo
vars == <<lay, ras, nodes, todo>>

\* ---- RangesAssembler.__init__ + the pushes of _assemble_ranges ---------------------
\* push(indices, output) of a block: whatever of it is still missing is covered by it
\* push(cells): every populated cell still missing is covered by its own node
Pushed(l, q) ==
  LET R == CellsOf(q)
      hitB == {b \in l.blk : CellsOf(b) \cap R # {}}
      afterB == R \ BlkCells(hitB)
      hitC == afterB \cap l.pop
  IN [missing |-> afterB \ hitC,
      cellIn |-> hitC,
      blockIn |-> hitB,
      phIn |-> {},            \* blank positions read from a node of their own
      self |-> {},            \* blank positions read from the solution (SELF)
      outCells |-> hitC,
      outBlocks |-> {b \in hitB : CellsOf(b) \subseteq R},
      key |-> Cardinality(afterB \ hitC)]

Init ==
  /\ lay \in {l \in Layouts : WellFormedLayout(l)}
  /\ ras = [q \in lay.req |-> Pushed(lay, q)]
  /\ nodes = {}
  /\ todo = lay.req

\* ---- RangesAssembler.add, in the order sorted(ranges, key=len(missing)) ------------
Add(q) ==
  /\ q \in todo
  /\ \A o \in todo : ras[q].key <= ras[o].key
  /\ LET a == ras[q]
         found == a.missing \cap nodes            \* already a (blank) node: an input
         ists == a.missing \ nodes
         own == Cardinality(ists) <= Compact      \* few enough: nodes of their own
     IN /\ ras' = [ras EXCEPT ![q] = [a EXCEPT !.missing = ists,
                                              !.phIn = found \cup (IF own THEN ists ELSE {}),
                                              !.self = IF own THEN {} ELSE ists]]
        /\ nodes' = IF own THEN nodes \cup ists ELSE nodes
  /\ todo' = todo \ {q}
  /\ UNCHANGED lay

Next == \E q \in Rect : Add(q)
Spec == Init /\ [][Next]_vars

\* ---- properties -------------------------------------------------------------------
Final == todo = {}
BlankOf(l, q) == (CellsOf(q) \ l.pop) \ BlkCells(l.blk)

\* every position of the rectangle is wired exactly once and to the right thing,
\* whatever the order in which the assemblers were added
WiringExact ==
  Final => \A q \in lay.req :
     LET a == ras[q]   R == CellsOf(q)
     IN /\ a.cellIn = R \cap lay.pop
        /\ a.blockIn = {b \in lay.blk : CellsOf(b) \cap R # {}}
        /\ a.phIn \cup a.self = BlankOf(lay, q)
        /\ a.phIn \cap a.self = {}
\* the solution is consulted only when more than Compact blanks have no node
SelfOnlyWhenMany == \A q \in lay.req : ras[q].self = {} \/ Cardinality(ras[q].self) > Compact
\* every blank read through a node has that node
PlaceholdersExist == Final => \A q \in lay.req : ras[q].phIn \subseteq nodes
\* the inverse assembler hands a supplied value to the populated cells inside and to the
\* blocks that lie wholly inside, and nothing else
InverseExact ==
  Final => \A q \in lay.req :
     /\ ras[q].outCells = CellsOf(q) \cap lay.pop
     /\ ras[q].outBlocks = {b \in lay.blk : CellsOf(b) \subseteq CellsOf(q)}
\* the inverse assembler exists exactly when there is something to hand a value to
\* (add(): `if len(self.outputs) >= 1`) - one populated cell inside is enough
HasInv(q) == ras[q].outCells # {} \/ ras[q].outBlocks # {}
SupplyReachesConstants ==
  Final => \A q \in lay.req : (CellsOf(q) \cap lay.pop # {}) => HasInv(q)
\* progress: every assembler is added (no deadlock before Final)
AddsAll == <>Final

\* The ideal that the code does not meet (recorded C07 finding): a value supplied through
\* the range reaches *every* blank position of it.  It reaches only the positions still
\* in `missing` - those that had no node when the assembler was added.
InvReachesEveryBlank == Final => \A q \in lay.req : ras[q].missing = BlankOf(lay, q)

\* ---- obligations: the final wiring of every layout, one per reachable final state ----
SetSeq(S) == SetToSeq(S)
RectJ(r) == <<r.c1, r.r1, r.c2, r.r2>>
Obl ==
  (EmitObl /\ Final) =>
     PrintT("OBL " \o ToJson(
        [pop |-> SetSeq(lay.pop),
         blk |-> SetSeq({RectJ(b) : b \in lay.blk}),
         req |-> SetSeq({[rect |-> RectJ(q),
                          missing |-> SetSeq(ras[q].missing),
                          cellIn |-> SetSeq(ras[q].cellIn),
                          blockIn |-> SetSeq({RectJ(b) : b \in ras[q].blockIn}),
                          phIn |-> SetSeq(ras[q].phIn),
                          self |-> SetSeq(ras[q].self),
                          outCells |-> SetSeq(ras[q].outCells),
                          outBlocks |-> SetSeq({RectJ(b) : b \in ras[q].outBlocks}),
                          inv |-> HasInv(q)] : q \in lay.req}),
         nodes |-> SetSeq(nodes)]))
=============================================================================
