SPECIFICATION TSpec
INVARIANT WellFormed
POSTCONDITION TraceAccepted
CHECK_DEADLOCK FALSE
