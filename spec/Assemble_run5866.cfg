SPECIFICATION Spec
CONSTANTS
  NC = 2
  NR = 3
  MaxReq = 2
  MaxBlk = 1
  Compact = 1
  EmitObl = TRUE
INVARIANT WiringExact
INVARIANT SelfOnlyWhenMany
INVARIANT PlaceholdersExist
INVARIANT InverseExact
INVARIANT SupplyReachesConstants
INVARIANT Obl
CHECK_DEADLOCK FALSE
