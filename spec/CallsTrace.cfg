SPECIFICATION TSpec
CONSTANTS
  EmitObl = FALSE
  Group = "all"
POSTCONDITION TraceAccepted
CHECK_DEADLOCK FALSE
