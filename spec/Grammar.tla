------------------------------ MODULE Grammar ------------------------------
(* C01 / C18 (ideal): Excel's expression grammar over abstract tokens.      *)
(*                                                                          *)
(* A formula is a sequence of tokens (strings).  Token classes:            *)
(*   operands    numbers "1" "2" "3", text "s", references "A1" "B2" "C3"   *)
(*   binary ops  = < > <= >= <>  |  &  |  + -  |  * /  |  ^                  *)
(*   postfix %   sign characters + - (unary exactly when they do not follow *)
(*               the end of an operand)                                     *)
(*   reference operators ":" (range) and "_" (intersection = white space)   *)
(*   "(" ")"  function openers "SUM(" "IF(" ...  "," ";" "{" "}"            *)
(*                                                                          *)
(* Grammar(s) is [k |-> "acc", t |-> tree], [k |-> "rej"], or              *)
(* [k |-> "dc"] where the property leaves the outcome open (array literals  *)
(* whose elements are not constants or are empty; a union at top level).    *)
(* Trees:  [t |-> "leaf", v]  [t |-> "bin", op, l, r]  [t |-> "un", op, x]  *)
(*         [t |-> "fn", name, args]  [t |-> "empty"]                        *)
(* An array literal is the tree ARRAY(ARRAY(row 1 ...), ARRAY(row 2 ...)).  *)
EXTENDS Naturals, Sequences, TLC

NumToks == {"1", "2", "3", "TRUE"}     \* (the logical literal is lexed like a number)
StrToks == {"\"s\""}
RefToks == {"A1", "B2", "C3", "B2:C3"}
Operands == NumToks \cup StrToks \cup RefToks
CmpOps == {"=", "<", ">", "<=", ">=", "<>"}
SignToks == {"+", "-"}
FnToks == {"SUM(", "IF(", "MAX(", "ARRAY("}
RefOps == {":", "_"}

Prec(t) == CASE t \in CmpOps -> 1
             [] t = "&" -> 2
             [] t \in {"+", "-"} -> 3
             [] t \in {"*", "/"} -> 4
             [] t = "^" -> 5
             [] OTHER -> 0
IsBinOp(t) == Prec(t) > 0

Leaf(v) == [t |-> "leaf", v |-> v]
Bin(op, l, r) == [t |-> "bin", op |-> op, l |-> l, r |-> r]
Un(op, x) == [t |-> "un", op |-> op, x |-> x]
Fn(name, args) == [t |-> "fn", name |-> name, args |-> args]
Empty == [t |-> "empty"]

FnName(tok) == SubSeq(tok, 1, Len(tok) - 1)     \* "SUM(" -> "SUM"

\* is the tree reference-valued (may be an operand of : _ , )?
RECURSIVE IsRefTree(_)
IsRefTree(t) ==
  CASE t.t = "leaf" -> t.v \in RefToks
    [] t.t = "bin" -> t.op \in {":", "_", ","}
    [] OTHER -> FALSE

\* an array element Excel allows: a constant, optionally signed
IsConstElem(t) ==
  \/ t.t = "leaf" /\ t.v \in NumToks \cup StrToks
  \/ t.t = "un" /\ t.op \in {"u-", "u+"} /\ t.x.t = "leaf" /\ t.x.v \in NumToks

Fail == [ok |-> FALSE]
Ok(t, i, dc) == [ok |-> TRUE, t |-> t, i |-> i, dc |-> dc]

Tok(s, i) == IF i <= Len(s) THEN s[i] ELSE "<end>"

RECURSIVE PExpr(_, _, _), PClimb(_, _, _), PPostfix(_, _), PPostLoop(_, _)
RECURSIVE PUnary(_, _), PRefChain(_, _), PRangeChain(_, _), PRefLoop(_, _, _), PPrimary(_, _)
RECURSIVE PItems(_, _, _, _), PRows(_, _, _, _, _), UnionOf(_)

\* right-nested union of a non-empty sequence of trees
UnionOf(ts) == IF Len(ts) = 1 THEN ts[1] ELSE Bin(",", ts[1], UnionOf(Tail(ts)))

\* items separated by "," up to the closer; an empty position is Empty.
\* acc: items so far; returns [ok, items, i (after closer), dc]
PItems(s, i, closers, acc) ==
  LET t == Tok(s, i)
  IN IF t \in closers THEN
        [ok |-> TRUE, items |-> acc.items \o <<Empty>>, i |-> i, dc |-> acc.dc]
     ELSE IF t = "," THEN
        PItems(s, i + 1, closers, [items |-> acc.items \o <<Empty>>, dc |-> acc.dc])
     ELSE LET e == PExpr(s, i, 1)
          IN IF ~e.ok THEN Fail
             ELSE LET t2 == Tok(s, e.i)
                      acc2 == [items |-> acc.items \o <<e.t>>, dc |-> acc.dc \/ e.dc]
                  IN IF t2 \in closers THEN
                        [ok |-> TRUE, items |-> acc2.items, i |-> e.i, dc |-> acc2.dc]
                     ELSE IF t2 = "," THEN PItems(s, e.i + 1, closers, acc2)
                     ELSE Fail

NoEmpty(items) == \A k \in 1..Len(items) : items[k] # Empty

\* rows of an array literal; i is just after "{" or ";"
PRows(s, i, rows, width, dc) ==
  LET r == PItems(s, i, {";", "}"}, [items |-> <<>>, dc |-> FALSE])
  IN IF ~r.ok THEN Fail
     ELSE LET w == Len(r.items)
              closer == Tok(s, r.i)
              dc2 == dc \/ r.dc \/ ~NoEmpty(r.items)
                        \/ \E k \in 1..w : r.items[k] # Empty /\ ~IsConstElem(r.items[k])
              rows2 == rows \o <<Fn("ARRAY", r.items)>>
          IN IF width # 0 /\ w # width THEN Fail              \* ragged rows
             ELSE IF closer = ";" THEN PRows(s, r.i + 1, rows2, w, dc2)
             ELSE Ok(Fn("ARRAY", rows2), r.i + 1, dc2)

PPrimary(s, i) ==
  LET t == Tok(s, i)
  IN IF t \in Operands THEN Ok(Leaf(t), i + 1, FALSE)
     ELSE IF t = "(" THEN
        (LET r == PItems(s, i + 1, {")"}, [items |-> <<>>, dc |-> FALSE])
         IN IF ~r.ok \/ ~NoEmpty(r.items) THEN Fail
            ELSE IF Len(r.items) = 1 THEN Ok(r.items[1], r.i + 1, r.dc)
            ELSE IF \A k \in 1..Len(r.items) : IsRefTree(r.items[k])
                 THEN Ok(UnionOf(r.items), r.i + 1, r.dc)
            ELSE Fail)
     ELSE IF t \in FnToks THEN
        (IF Tok(s, i + 1) = ")" THEN Ok(Fn(FnName(t), <<>>), i + 2, FALSE)
         ELSE LET r == PItems(s, i + 1, {")"}, [items |-> <<>>, dc |-> FALSE])
              IN IF ~r.ok THEN Fail ELSE Ok(Fn(FnName(t), r.items), r.i + 1, r.dc))
     ELSE IF t = "{" THEN
        (IF Tok(s, i + 1) = "}" THEN Fail ELSE PRows(s, i + 1, <<>>, 0, FALSE))
     ELSE Fail

\* reference operators: ":" binds tighter than the intersection "_"
PRefLoop(s, lhs, op) ==
  IF ~lhs.ok THEN Fail
  ELSE LET t == Tok(s, lhs.i)
       IN IF t = op THEN
             (LET r == IF op = ":" THEN PPrimary(s, lhs.i + 1) ELSE PRangeChain(s, lhs.i + 1)
              IN IF ~r.ok \/ ~IsRefTree(lhs.t) \/ ~IsRefTree(r.t) THEN Fail
                 ELSE PRefLoop(s, Ok(Bin(t, lhs.t, r.t), r.i, lhs.dc \/ r.dc), op))
          ELSE lhs

PRangeChain(s, i) == PRefLoop(s, PPrimary(s, i), ":")
PRefChain(s, i) == PRefLoop(s, PRangeChain(s, i), "_")

PUnary(s, i) ==
  LET t == Tok(s, i)
  IN IF t \in SignToks THEN
        (LET r == PUnary(s, i + 1)
         IN IF ~r.ok THEN Fail ELSE Ok(Un("u" \o t, r.t), r.i, r.dc))
     ELSE PRefChain(s, i)

PPostLoop(s, r) ==
  IF ~r.ok THEN Fail
  ELSE IF Tok(s, r.i) = "%" THEN PPostLoop(s, Ok(Un("%", r.t), r.i + 1, r.dc))
  ELSE r

PPostfix(s, i) == PPostLoop(s, PUnary(s, i))

PClimb(s, lhs, minp) ==
  IF ~lhs.ok THEN Fail
  ELSE LET t == Tok(s, lhs.i)
           p == Prec(t)
       IN IF p >= minp /\ p > 0 THEN
             (LET r == PExpr(s, lhs.i + 1, p + 1)
              IN IF ~r.ok THEN Fail
                 ELSE PClimb(s, Ok(Bin(t, lhs.t, r.t), r.i, lhs.dc \/ r.dc), minp))
          ELSE lhs

PExpr(s, i, minp) == PClimb(s, PPostfix(s, i), minp)

Rej == [k |-> "rej"]
DC == [k |-> "dc"]
Acc(t) == [k |-> "acc", t |-> t]

Grammar(s) ==
  LET r == PExpr(s, 1, 1)
  IN IF ~r.ok THEN Rej
     ELSE IF r.i = Len(s) + 1 THEN (IF r.dc THEN DC ELSE Acc(r.t))
     ELSE IF Tok(s, r.i) = "," THEN DC          \* a union outside parentheses
     ELSE Rej

-----------------------------------------------------------------------------
(* Canonical text of a tree: the fully parenthesised rendering.             *)
RECURSIVE Render(_), RenderArgs(_), RenderToks(_), RenderArgToks(_)

RenderArgs(args) ==
  IF args = <<>> THEN ""
  ELSE IF Len(args) = 1 THEN Render(args[1])
  ELSE Render(args[1]) \o ", " \o RenderArgs(Tail(args))

Render(t) ==
  CASE t.t = "leaf" -> t.v
    [] t.t = "empty" -> ""
    [] t.t = "un" -> (IF t.op = "%" THEN Render(t.x) \o "%"
                      ELSE SubSeq(t.op, 2, 2) \o Render(t.x))
    [] t.t = "bin" ->
         (IF t.op = "_" THEN "(" \o Render(t.l) \o " " \o Render(t.r) \o ")"
          ELSE IF t.op \in {":", ","} THEN "(" \o Render(t.l) \o t.op \o " " \o Render(t.r) \o ")"
          ELSE "(" \o Render(t.l) \o " " \o t.op \o " " \o Render(t.r) \o ")")
    [] t.t = "fn" -> t.name \o "(" \o RenderArgs(t.args) \o ")"

\* the same rendering as a token sequence (for re-parsing)
RenderArgToks(args) ==
  IF args = <<>> THEN <<>>
  ELSE IF Len(args) = 1 THEN RenderToks(args[1])
  ELSE RenderToks(args[1]) \o <<",">> \o RenderArgToks(Tail(args))

RenderToks(t) ==
  CASE t.t = "leaf" -> <<t.v>>
    [] t.t = "empty" -> <<>>
    [] t.t = "un" -> (IF t.op = "%" THEN RenderToks(t.x) \o <<"%">>
                      ELSE <<SubSeq(t.op, 2, 2)>> \o RenderToks(t.x))
    [] t.t = "bin" -> <<"(">> \o RenderToks(t.l) \o <<t.op>> \o RenderToks(t.r) \o <<")">>
    [] t.t = "fn" -> <<t.name \o "(">> \o RenderArgToks(t.args) \o <<")">>

\* post-order (the reverse-Polish sequence a shunting-yard parser emits)
RECURSIVE PostOrder(_), PostOrderArgs(_)
PostOrderArgs(args) ==
  IF args = <<>> THEN <<>> ELSE PostOrder(args[1]) \o PostOrderArgs(Tail(args))
PostOrder(t) ==
  CASE t.t = "leaf" -> <<t.v>>
    [] t.t = "empty" -> <<"">>
    [] t.t = "un" -> PostOrder(t.x) \o <<t.op>>
    [] t.t = "bin" -> PostOrder(t.l) \o PostOrder(t.r) \o <<t.op>>
    [] t.t = "fn" -> PostOrderArgs(t.args) \o <<t.name>>

\* prefix form with arities, compact and trivially decodable
RECURSIVE Prefix(_), PrefixArgs(_)
PrefixArgs(args) ==
  IF args = <<>> THEN <<>> ELSE Prefix(args[1]) \o PrefixArgs(Tail(args))
Prefix(t) ==
  CASE t.t = "leaf" -> <<"L", t.v>>
    [] t.t = "empty" -> <<"E">>
    [] t.t = "un" -> <<"U", t.op>> \o Prefix(t.x)
    [] t.t = "bin" -> <<"B", t.op>> \o Prefix(t.l) \o Prefix(t.r)
    [] t.t = "fn" -> <<"F", t.name, ToString(Len(t.args))>> \o PrefixArgs(t.args)
=============================================================================
