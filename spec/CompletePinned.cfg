CONSTANTS
  SelfPath = TRUE
  SpillAnchors = FALSE
SPECIFICATION BSpec
INVARIANT ClosureComplete
INVARIANT LoadedArePopulated
PROPERTY Termination
POSTCONDITION EmitNeeds
CHECK_DEADLOCK FALSE
