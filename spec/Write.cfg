CONSTANTS
  SelfPath = TRUE
SPECIFICATION WSpec
INVARIANT WriteExact
INVARIANT Untouched
CHECK_DEADLOCK FALSE
