SPECIFICATION Spec
CONSTANTS
  Chars = {35, 69, 77, 80, 84, 89, 101}
  MaxLen = 6
INVARIANT RoundTripOK
INVARIANT PlainUntouched
INVARIANT Obl
CHECK_DEADLOCK FALSE
