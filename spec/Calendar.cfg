CONSTANTS
  EmitObl = TRUE
SPECIFICATION Spec
INVARIANT LenOK
INVARIANT LastSerial
INVARIANT Feb1900
INVARIANT Mar1900
INVARIANT WeekdayStep
INVARIANT WeekdayRange
INVARIANT ClosedForm
INVARIANT EDateBack
INVARIANT WeekRange
INVARIANT Obl
CHECK_DEADLOCK FALSE
