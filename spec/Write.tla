------------------------------- MODULE Write -------------------------------
(* C16 - writing a solution.  A solution gives values to nodes: single     *)
(* cells and multi-cell ranges (the matrix of their cell ids).  Writing     *)
(* goes node by node, in any order, each node storing Out(value) of every   *)
(* element at that element's own cell; cells no node covers keep what the   *)
(* target book held.  Out: an error value is written as its text, a blank   *)
(* and empty text leave the cell empty, everything else is itself.          *)
(* A case (Workbook!Cases) carries `ranges` (name |-> rows of ids) and      *)
(* `prev` (id |-> content of the target book before writing).               *)
EXTENDS Workbook

ErrText(e) ==
  CASE e = "NULL" -> "#NULL!" [] e = "DIV0" -> "#DIV/0!" [] e = "VALUE" -> "#VALUE!"
    [] e = "REF" -> "#REF!" [] e = "NAME" -> "#NAME?" [] e = "NUM" -> "#NUM!"
    [] e = "NA" -> "#N/A" [] e = "CIRC" -> "#CIRC!"
EmptyCell == [k |-> "empty"]
Out(x) ==
  CASE x.k = "e" -> [k |-> "text", t |-> ErrText(x.e)]
    [] x.k = "z" -> EmptyCell
    [] x.k = "t" /\ x.s = <<>> -> EmptyCell
    [] OTHER -> x

Wb == Cases[w]
Solution == val          \* Sem(Wb), computed once in the initial state
CellNodes == {id \in DOMAIN Solution : id \in CellIds(Wb) \/ id \in DOMAIN Wb.ov}
RangeNodes == DOMAIN Wb.ranges \ {"_NONE_"}
ValueAt(id) == IF id \in DOMAIN Solution THEN Solution[id] ELSE Blank

\* what the books must hold after writing
Expected ==
  LET covered == CellNodes \cup UNION {UNION {{Wb.ranges[r][i][j] : j \in 1..Len(Wb.ranges[r][i])}
                                               : i \in 1..Len(Wb.ranges[r])} : r \in RangeNodes}
      all == covered \cup (DOMAIN Wb.prev \ {"_NONE_"})
  IN [id \in all |-> IF id \in covered THEN Out(ValueAt(id)) ELSE Wb.prev[id]]

VARIABLES pending, written
wvars == <<w, val, pending, written>>

RangeCells(W) == UNION {UNION {{W.ranges[r][i][j] : j \in 1..Len(W.ranges[r][i])}
                                  : i \in 1..Len(W.ranges[r])} : r \in DOMAIN W.ranges \ {"_NONE_"}}
\* single cells no range covers cannot interact with anything: they are written
\* first; the order of all the others is explored
WInit == /\ w \in 1..Len(Cases)
         /\ val = Sem(Cases[w])
         /\ LET W == Cases[w]
                S == Sem(W)
                cn == {id \in DOMAIN S : id \in CellIds(W) \/ id \in DOMAIN W.ov}
                free == cn \ RangeCells(W)
                p0 == [id \in DOMAIN W.prev \ {"_NONE_"} |-> W.prev[id]]
            IN /\ pending = (cn \ free) \cup (DOMAIN W.ranges \ {"_NONE_"})
               /\ written = [id \in DOMAIN p0 \cup free |->
                               IF id \in free THEN Out(S[id]) ELSE p0[id]]

Put(f, id, x) == [k \in DOMAIN f \cup {id} |-> IF k = id THEN x ELSE f[k]]
RECURSIVE PutAll(_, _)
PutAll(f, ids) == IF ids = {} THEN f
                  ELSE LET id == CHOOSE x \in ids : TRUE
                       IN PutAll(Put(f, id, Out(ValueAt(id))), ids \ {id})

WriteNode(n) ==
  /\ n \in pending
  /\ pending' = pending \ {n}
  /\ written' = IF n \in RangeNodes
                THEN PutAll(written, UNION {{Wb.ranges[n][i][j] : j \in 1..Len(Wb.ranges[n][i])}
                                             : i \in 1..Len(Wb.ranges[n])})
                ELSE Put(written, n, Out(ValueAt(n)))
  /\ UNCHANGED <<w, val>>

WNext == \E n \in pending : WriteNode(n)
WSpec == WInit /\ [][WNext]_wvars

\* whatever the order of the nodes, the result is the expected books
WriteExact == pending = {} => written = Expected
\* cells outside the solution are never touched
Untouched == \A id \in DOMAIN written :
               (id \notin DOMAIN Expected \/ id \in DOMAIN Wb.prev) =>
                  (written[id] = Expected[id] \/ written[id] = Wb.prev[id])

EmitExpected ==
  /\ TLCGet("stats").distinct >= 0
  /\ JsonSerialize(IOEnv.OUT_FILE, [i \in 1..Len(Cases) |->
        LET W0 == Cases[i]  S0 == Sem(W0)
        IN [id \in DOMAIN S0 |-> S0[id]]])
=============================================================================
