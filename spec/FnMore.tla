------------------------------- MODULE FnMore -------------------------------
(* Worksheet functions beyond the list of C12, written from their Excel      *)
(* definitions over the same exact universe (FnDef): percentiles and         *)
(* quartiles (exact linear interpolation over rationals), the MATH / PRECISE *)
(* variants of CEILING and FLOOR, matrix product and determinant, FACTDOUBLE,*)
(* the A-variants of the variance family are left to ApproxF.  They are      *)
(* replayed for information only (coverage.beyond_property of C12).          *)
EXTENDS FnDef

\* ---- PERCENTILE / QUARTILE ------------------------------------------------------
\* position r (a rational >= 1 counted from 1) in the sorted numbers: linear interpolation
Interp(ns, r) ==
  LET lo == NFloor(r).n
      fr == NSub(r, IntV(lo))
  IN IF fr.n = 0 \/ lo >= Len(ns) THEN ns[lo]
     ELSE NAdd(ns[lo], NMul(fr, NSub(ns[lo + 1], ns[lo])))

PercentileOf(exc, ns, k) ==        \* ns sorted, k a number
  LET n == Len(ns)
  IN IF n = 0 THEN NUM
     ELSE IF ~exc THEN
        (IF k.n < 0 \/ NCmp(k, One) > 0 THEN NUM
         ELSE Interp(ns, NAdd(NMul(k, IntV(n - 1)), One)))
     ELSE
        (IF k.n <= 0 \/ NCmp(k, One) >= 0 THEN NUM
         ELSE LET r == NMul(k, IntV(n + 1))
              IN IF NCmp(r, One) < 0 \/ NCmp(r, IntV(n)) > 0 THEN NUM ELSE Interp(ns, r))

Percentile(fn, arr, karg) ==
  LET items == ItemsOf(<<arr>>)
      errs == ErrsIn(items)
      ns == SortN(NumsIn(items))
      kc == Coerce(Scalar(karg))
      exc == fn \in {"PERCENTILE.EXC", "QUARTILE.EXC"}
      quart == fn \in {"QUARTILE", "QUARTILE.INC", "QUARTILE.EXC"}
      q == IF kc.k = "e" THEN 0 ELSE NTrunc(kc).n
      k == IF quart THEN Num(q, 4) ELSE kc
      kerr == IF kc.k = "e" THEN {kc.e}
              ELSE IF quart /\ (q < 0 \/ q > 4) THEN {"NUM"} ELSE {}
  IN IF errs # {} /\ kerr # {} THEN AnyErr
     ELSE IF errs # {} THEN OneOf(errs)
     ELSE IF kerr # {} THEN OneOf(kerr)
     ELSE PercentileOf(exc, ns, k)

\* ---- CEILING.MATH, FLOOR.MATH, CEILING.PRECISE, FLOOR.PRECISE, ISO.CEILING -------
\* (number, significance = 1, mode = 0); the sign of the significance is ignored
RoundMult(up, x, sig) ==           \* multiple of sig (> 0) next to x, upwards or downwards
  LET q == NDiv(x, sig) IN NMul(IF up THEN NCeil(q) ELSE NFloor(q), sig)
CeilFloorMath(fn, x, sig0, mode) ==
  LET sig == NAbs(sig0)
      ceil == fn \in {"CEILING.MATH", "CEILING.PRECISE", "ISO.CEILING"}
      withMode == fn \in {"CEILING.MATH", "FLOOR.MATH"}
      \* a non-zero mode turns the direction around for negative numbers
      up == IF withMode /\ mode.n # 0 /\ x.n < 0 THEN ~ceil ELSE ceil
  IN IF sig.n = 0 \/ x.n = 0 THEN Zero ELSE RoundMult(up, x, sig)
CeilFloorMathCall(fn, vs) ==
  LET n == Len(vs)
      full == <<vs[1], IF n >= 2 THEN vs[2] ELSE One, IF n >= 3 THEN vs[3] ELSE Zero>>
      errs == {i \in 1..3 : full[i].k = "e"}
      cs == [i \in 1..3 |-> Coerce(full[i])]
      bad == {i \in 1..3 : cs[i].k = "e"}
      first(S) == CHOOSE i \in S : \A j \in S : i <= j
  IN IF errs # {} THEN full[first(errs)]
     ELSE IF bad # {} THEN cs[first(bad)]
     ELSE CeilFloorMath(fn, cs[1], cs[2], cs[3])

\* ---- FACTDOUBLE ------------------------------------------------------------------
RECURSIVE FactDbl(_)
FactDbl(n) == IF n <= 1 THEN 1 ELSE n * FactDbl(n - 2)
FactDouble(v) ==
  IF v.k = "e" THEN v
  ELSE LET x == Coerce(v)
       IN IF x.k = "e" THEN x ELSE IF x.n < 0 THEN NUM
          ELSE IF NTrunc(x).n > 19 THEN ApproxF("FACTDOUBLE", <<NTrunc(x)>>, 1)   \* beyond 32-bit integers here
          ELSE IntV(FactDbl(NTrunc(x).n))

\* ---- MMULT, MDETERM, MUNIT, TRANSPOSE ---------------------------------------------
\* every entry must be a number (a blank or a text makes #VALUE!), an error is kept
MatErr(m) ==
  LET fl == FlatRows(m.rows)
      errs == {fl[i].e : i \in {j \in 1..Len(fl) : fl[j].k = "e"}}
  IN IF errs # {} THEN OneOf(errs)
     ELSE IF \E i \in 1..Len(fl) : fl[i].k # "n" THEN VALUE ELSE Skip
AsMat(a) == IF a.f = "v" THEN Arr(<<<<a.v>>>>) ELSE a.v
RECURSIVE DotN(_, _, _, _, _)
DotN(A, Bm, i, j, k) == IF k = 0 THEN Zero ELSE NAdd(DotN(A, Bm, i, j, k - 1), NMul(A.rows[i][k], Bm.rows[k][j]))
MMult(a, b) ==
  LET A == AsMat(a)   Bm == AsMat(b)   ea == MatErr(A)   eb == MatErr(Bm)
  IN IF ea.k = "e" /\ eb.k = "e" /\ ea # eb THEN AnyErr
     ELSE IF ea.k \in {"e", "any"} THEN ea ELSE IF eb.k \in {"e", "any"} THEN eb
     ELSE IF Cols(A) # Rows(Bm) THEN VALUE
     ELSE Matrix(Rows(A), Cols(Bm), LAMBDA i, j : DotN(A, Bm, i, j, Cols(A)))
Minor(A, r, c) ==
  LET n == Rows(A)
  IN Matrix(n - 1, n - 1, LAMBDA i, j : A.rows[IF i < r THEN i ELSE i + 1][IF j < c THEN j ELSE j + 1])
RECURSIVE Det(_), DetSum(_, _)
DetSum(A, j) ==
  IF j = 0 THEN Zero
  ELSE LET t == NMul(A.rows[1][j], Det(Minor(A, 1, j)))
       IN NAdd(DetSum(A, j - 1), IF j % 2 = 1 THEN t ELSE NNeg(t))
Det(A) == IF Rows(A) = 1 THEN A.rows[1][1] ELSE DetSum(A, Cols(A))
MDeterm(a) ==
  LET A == AsMat(a)   ea == MatErr(A)
  IN IF ea.k \in {"e", "any"} THEN ea
     ELSE IF Rows(A) # Cols(A) THEN VALUE ELSE Det(A)
MUnit(v) ==
  IF v.k = "e" THEN v
  ELSE LET x == Coerce(v)
       IN IF x.k = "e" THEN x
          ELSE LET n == NTrunc(x).n
               IN IF n < 1 THEN VALUE
                  ELSE Matrix(n, n, LAMBDA i, j : IF i = j THEN One ELSE Zero)
Transpose(a) ==
  \* (a blank cell shows as 0 in an array result)
  LET A == AsMat(a) IN Matrix(Cols(A), Rows(A), LAMBDA i, j : IF A.rows[j][i].k = "z" THEN Zero ELSE A.rows[j][i])
=============================================================================
