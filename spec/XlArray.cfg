SPECIFICATION Spec
CONSTANTS
  EmitObl = FALSE
INVARIANT ShapeOK
INVARIANT Pointwise
INVARIANT FitShape
INVARIANT FitIdempotent
INVARIANT FitScalar
INVARIANT ArityIndependent
INVARIANT Obl
CHECK_DEADLOCK FALSE
