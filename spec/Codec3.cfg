SPECIFICATION Spec
CONSTANTS
  Chars = {32, 61, 123, 35, 78, 47, 65, 33, 49}
  MaxLen = 5
INVARIANT RoundTripOK
INVARIANT PlainUntouched
INVARIANT Obl
CHECK_DEADLOCK FALSE
