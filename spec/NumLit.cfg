SPECIFICATION Spec
CONSTANTS
  Chars = {48, 49, 55, 46, 69, 43, 45}
  MaxLen = 6
INVARIANT AutomatonIsDefinition
INVARIANT LiteralHasValue
INVARIANT LeadingZero
INVARIANT Obl
CHECK_DEADLOCK FALSE
