--------------------------- MODULE XlArrayTrace ---------------------------
(* Trace validation for C05: events recorded from the real code             *)
(*   [fn, a, b, res, scal]                                                   *)
(* fn applied to the arrays a and b returned res; scal maps an index pair   *)
(* "ia,ja,ib,jb" (0,0 = no element: #N/A) to the code's own scalar result   *)
(* for those two elements.  The event is accepted iff res is the lifting of *)
(* that scalar function under XlArray's broadcasting rule - whatever the    *)
(* function computes.  Unary functions log b = blank and index "ia,ja,1,1". *)
EXTENDS XlArray, TLCExt

Events == JsonDeserialize(IOEnv.TRACE_FILE)
VARIABLE l

Idx(v, i, j) ==      \* which element of v position (i, j) reads; <<0,0>> = none
  IF v.k # "a" THEN <<1, 1>>
  ELSE LET m == Rows(v)  n == Cols(v)
           ii == IF m = 1 THEN 1 ELSE i
           jj == IF n = 1 THEN 1 ELSE j
       IN IF ii <= m /\ jj <= n THEN <<ii, jj>> ELSE <<0, 0>>

Key(p, q) == ToString(p[1]) \o "," \o ToString(p[2]) \o "," \o ToString(q[1]) \o "," \o ToString(q[2])

Expected(e) ==
  LET R == Max2(Rows(e.a), Rows(e.b))
      C == Max2(Cols(e.a), Cols(e.b))
      f(i, j) == e.scal[Key(Idx(e.a, i, j), Idx(e.b, i, j))]
  IN IF e.a.k # "a" /\ e.b.k # "a" THEN f(1, 1) ELSE Unwrap(Matrix(R, C, f))

Conforms(e) == Unwrap(e.res) = Expected(e)

TInit == l = 1 /\ kind = "trace" /\ x = Blank /\ y = Blank /\ dst = <<0, 0>> /\ out = Pending
TStep == /\ l <= Len(Events)
         /\ (IF Conforms(Events[l]) THEN TRUE ELSE PrintT(<<"REJECT", l>>))
         /\ l' = l + 1
         /\ UNCHANGED vars
TSpec == TInit /\ [][TStep]_<<vars, l>>
Consumed == TLCGet("stats").diameter = Len(Events) + 1
=============================================================================
