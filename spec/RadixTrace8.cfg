CONSTANTS
  EmitObl = FALSE
  Base = 8
  MaxLen = 10
  Digits = {0}
SPECIFICATION TSpec
POSTCONDITION Consumed
CHECK_DEADLOCK FALSE
