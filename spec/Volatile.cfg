CONSTANTS
  Sites = {"s1", "s2"}
  MaxEpoch = 3
  FreezeOnModelCompile = TRUE
SPECIFICATION Spec
INVARIANT NeverFrozen
INVARIANT OncePerEpoch
CHECK_DEADLOCK FALSE
