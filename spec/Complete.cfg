CONSTANTS
  SelfPath = TRUE
  SpillAnchors = TRUE
SPECIFICATION BSpec
INVARIANT ClosureComplete
INVARIANT LoadedArePopulated
PROPERTY Termination
POSTCONDITION EmitNeeds
CHECK_DEADLOCK FALSE
