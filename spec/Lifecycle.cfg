SPECIFICATION Spec
CONSTANTS
  NOv = 3
  MaxLen = 3
  Objects = {"m"}
INVARIANT HistoryFree
INVARIANT Independent
PROPERTY NoStaleRead
CHECK_DEADLOCK FALSE
