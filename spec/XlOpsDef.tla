----------------------------- MODULE XlOpsDef -----------------------------
(* C02 - Excel's scalar operator semantics, written from the rule itself.  *)
EXTENDS XlValue, Json, IOUtils

BinOps == {"+", "-", "*", "/", "^", "&", "=", "<>", "<", "<=", ">", ">="}
UnOps == {"u-", "u+", "%"}
ArithOps == {"+", "-", "*", "/", "^"}
CmpOps == {"=", "<>", "<", "<=", ">", ">="}

\* Coercion of one scalar operand for arithmetic: a number or an error value.
Coerce(v) ==
  CASE v.k = "n" -> v
    [] v.k = "b" -> IF v.b THEN One ELSE Zero
    [] v.k = "z" -> Zero
    [] v.k = "t" -> LET p == ParseNumber(v.s)
                    IN IF p = NotNumeric THEN Err("VALUE") ELSE p
    [] v.k = "e" -> v
    [] OTHER -> Err("VALUE")      \* (observations that are not Excel values)

FromRanged(r) == IF r = Overflow THEN Err("NUM") ELSE r

\* x ^ k for a non-zero number x and a non-zero integer k.  Exact while the
\* mantissa stays small; beyond that only what is certain is stated: the sign,
\* and overflow (#NUM!) / underflow (0) where the magnitude bounds decide it.
SmallPow(x, ak) ==    \* x^ak can be computed exactly inside 31-bit integers
  LET m == Max2(Abs(x.n), x.d)
  IN \/ ak <= 1
     \/ ak = 2 /\ m <= 30000
     \/ ak = 3 /\ m <= 1000
     \/ ak = 4 /\ m <= 150

PowInt(x, k) ==
  LET ak == Abs(k)
      sg == IF x.n < 0 /\ ak % 2 = 1 THEN -1 ELSE 1
      ax == NumE(Abs(x.n), x.d, 0)
      c1 == NCmp(ax, One)                         \* mantissa against 1
      grows == IF x.e # 0 THEN (x.e > 0) = (k > 0)  \* does |x^k| grow?
               ELSE (c1 > 0) = (k > 0)
  IN IF x.e = 0 /\ c1 = 0 THEN IntV(sg)
     ELSE IF x.e = 0 /\ SmallPow(x, ak) THEN
        (LET p == NPowNat(x, ak) IN IF k > 0 THEN p ELSE NDiv(One, p))
     ELSE IF x.e # 0 THEN
        (IF ak = 1 THEN (IF k > 0 THEN x ELSE FromRanged(NDiv(One, x)))
         ELSE IF grows THEN Err("NUM") ELSE Zero)
     ELSE IF grows THEN
        (IF ak <= 154 /\ NCmp(ax, IntV(100)) <= 0 /\ NCmp(ax, Num(1, 100)) >= 0 THEN Approx(sg)
         ELSE IF ak >= 1100 /\ (NCmp(ax, IntV(2)) >= 0 \/ NCmp(ax, Num(1, 2)) <= 0) THEN Err("NUM")
         ELSE AnyOf(<<Approx(sg), Err("NUM")>>))
     ELSE
        (IF ak <= 154 /\ NCmp(ax, IntV(100)) <= 0 /\ NCmp(ax, Num(1, 100)) >= 0 THEN Approx(sg)
         ELSE AnyOf(<<Approx(sg), Zero>>))

\* x ^ y on numbers
Pow(x, y) ==
  IF x.n = 0 THEN
     (IF y.n = 0 THEN Err("NUM") ELSE IF y.n < 0 THEN Err("DIV0") ELSE Zero)
  ELSE IF y.n = 0 THEN One
  ELSE IF y.e > 0 THEN                      \* a huge (hence even integer) exponent
     (LET c == NCmp(NumE(Abs(x.n), x.d, x.e), One)
      IN IF c = 0 THEN One
         ELSE IF (c > 0) = (y.n > 0) THEN Err("NUM") ELSE Zero)
  ELSE IF y.e < 0 THEN                      \* a tiny, non-integer exponent
     (IF x.n < 0 THEN Err("NUM") ELSE IF x = One THEN One ELSE Approx(1))
  ELSE IF y.d = 1 THEN                      \* integer exponent
     PowInt(x, y.n)
  ELSE                                      \* fractional exponent
     IF x.n < 0 THEN Err("NUM")
     ELSE IF x = One THEN One
     ELSE LET mag == (x.e * y.n) \div y.d   \* decimal exponent of the result
          IN IF mag > 308 THEN Err("NUM")
             ELSE IF mag < -323 THEN Zero
             ELSE Approx(1)

Arith(op, x, y) ==
  CASE op = "+" -> NAdd(x, y)
    [] op = "-" -> NSub(x, y)
    [] op = "*" -> FromRanged(NMul(x, y))
    [] op = "/" -> IF y.n = 0 THEN Err("DIV0") ELSE FromRanged(NDiv(x, y))
    [] op = "^" -> Pow(x, y)

\* comparison: numbers < text < logicals; a blank adopts the other side's kind
Rank(v) == CASE v.k = "n" -> 0 [] v.k = "t" -> 1 [] v.k = "b" -> 2

Adopt(v, other) ==
  IF v.k # "z" THEN v
  ELSE CASE other.k = "t" -> Txt(<<>>)
         [] other.k = "b" -> Bool(FALSE)
         [] OTHER -> Zero

Cmp3(a0, b0) ==   \* -1 / 0 / 1 on non-error scalars
  LET a == Adopt(a0, b0)
      b == Adopt(b0, a0)
  IN IF Rank(a) # Rank(b) THEN (IF Rank(a) < Rank(b) THEN -1 ELSE 1)
     ELSE CASE a.k = "n" -> NCmp(a, b)
            [] a.k = "t" -> TextCmp(a.s, b.s)
            [] a.k = "b" -> (IF a.b = b.b THEN 0 ELSE IF b.b THEN -1 ELSE 1)

CmpHolds(op, c) ==
  CASE op = "=" -> c = 0
    [] op = "<>" -> c # 0
    [] op = "<" -> c < 0
    [] op = "<=" -> c <= 0
    [] op = ">" -> c > 0
    [] op = ">=" -> c >= 0

\* The binary operators on scalars.
Bin(op, a, b) ==
  IF a.k \in {"e", "any"} THEN a            \* the left-most error, unchanged
  ELSE IF b.k \in {"e", "any"} THEN b         \* ("any": one of several error values)
  ELSE IF op \in ArithOps THEN
     (LET x == Coerce(a)
          y == Coerce(b)
      IN IF x.k = "e" THEN x ELSE IF y.k = "e" THEN y ELSE Arith(op, x, y))
  ELSE IF op = "&" THEN Txt(Display(a) \o Display(b))
  ELSE Bool(CmpHolds(op, Cmp3(a, b)))

Un(op, a) ==
  IF a.k \in {"e", "any"} THEN a
  ELSE IF op = "u+" THEN (IF a.k = "z" THEN Zero ELSE a)   \* unary plus leaves its operand as it is
  ELSE LET x == Coerce(a)
       IN IF x.k = "e" THEN x
          ELSE IF op = "u-" THEN NNeg(x)
          ELSE FromRanged(NDiv(x, IntV(100)))

-----------------------------------------------------------------------------
(* The pool of operand values of property C02 and the theorems TLC checks   *)
(* over its complete cross product.                                          *)


Pool == <<
  IntV(0), IntV(1), IntV(-1), IntV(2), Num(1, 2), Num(1, 4), Num(3, 2), Num(-5, 2),
  IntV(3), IntV(100),
  NumE(1, 1, 200), NumE(1, 1, -200), NumE(-1, 1, 200),
  Txt(<<51>>),                 \* "3"
  Txt(<<32, 51, 32>>),         \* " 3 "
  Txt(<<49, 101, 51>>),        \* "1e3"
  Txt(<<45, 48, 46, 53>>),     \* "-0.5"
  Txt(<<97>>),                 \* "a"
  Txt(<<65>>),                 \* "A"
  Txt(<<98>>),                 \* "b"
  Txt(<<66>>),                 \* "B"
  Txt(<<97, 98>>),             \* "ab"
  Txt(<<49, 44, 53>>),         \* "1,5"
  Txt(<<>>),                   \* ""
  Bool(TRUE), Bool(FALSE), Blank,
  Err("NULL"), Err("DIV0"), Err("VALUE"), Err("REF"), Err("NAME"), Err("NUM"), Err("NA")
>>
PoolIdx == 1..Len(Pool)
PoolSet == {Pool[i] : i \in PoolIdx}
NonErr == {v \in PoolSet : v.k # "e"}

WellFormedResult(r) == r.k \in {"n", "t", "b", "e", "approx", "any"}

\* --- theorems over the whole pool, evaluated once (ASSUME) ---
B(opn, x, y) == Bin(opn, x, y).b

TotalOrder ==
  \A a \in NonErr : \A b \in NonErr :
     /\ B("<=", a, b) = (B("<", a, b) \/ B("=", a, b))
     /\ B(">=", a, b) = (B(">", a, b) \/ B("=", a, b))
     /\ B("<>", a, b) = ~B("=", a, b)
     /\ B(">", a, b) = B("<", b, a)
     /\ (B("<", a, b) \/ B("=", a, b) \/ B(">", a, b))
     /\ ~(B("<", a, b) /\ B(">", a, b))
     /\ ~(B("<", a, b) /\ B("=", a, b))
     /\ B("=", a, a)
     /\ (B("=", a, b) => B("=", b, a))

\* transitivity over non-blank values (a blank takes the kind of its partner,
\* so it is equal to 0, "" and FALSE at once and is excluded here)
Transitive ==
  LET V == {v \in NonErr : v.k # "z"}
  IN \A a \in V : \A b \in V : \A c \in V :
        /\ (B("<", a, b) /\ B("<", b, c) => B("<", a, c))
        /\ (B("=", a, b) /\ B("=", b, c) => B("=", a, c))

RankMonotone ==
  \A a \in NonErr : \A b \in NonErr :
     (a.k = "n" /\ b.k = "t") \/ (a.k = "t" /\ b.k = "b") \/ (a.k = "n" /\ b.k = "b")
        => B("<", a, b)

NegInvolution ==
  \A a \in NonErr : LET x == Coerce(a) IN x.k = "n" => Un("u-", Un("u-", a)) = x

ASSUME TotalOrder
ASSUME Transitive
ASSUME RankMonotone
ASSUME NegInvolution

=============================================================================
