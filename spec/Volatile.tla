------------------------------ MODULE Volatile ------------------------------
(* C13 - volatile functions (NOW, TODAY, RAND, RANDBETWEEN).                 *)
(*                                                                          *)
(* An executable object is obtained in some way (Ways) from a source that   *)
(* has volatile call sites; it is then used repeatedly.  Every use is one   *)
(* epoch; a volatile site evaluated in epoch e carries the tag e.           *)
(* Implementation-shaped: obtaining the object may pre-evaluate (compile)   *)
(*   - AstBuilder.compile runs the formula once with COMPILING = TRUE: a    *)
(*     volatile wrapper returns "no value", its consumers stay unevaluated, *)
(*     nothing volatile is frozen;                                          *)
(*   - ExcelModel.compile pre-dispatches the model with the cells' own      *)
(*     COMPILING = FALSE and freezes whatever got a value - including the   *)
(*     volatile cells (named deviation FreezeOnModelCompile).               *)
(* NeverFrozen: no value fixed while obtaining the object carries an epoch  *)
(* tag.  OncePerEpoch: each site is evaluated exactly once per use.         *)
EXTENDS Naturals, Sequences, FiniteSets, TLC, Json, IOUtils, TLCExt

CONSTANTS Sites,                  \* the volatile call sites / cells of the source
          MaxEpoch,
          FreezeOnModelCompile    \* TRUE: as the pinned code does

Ways == {"formula-compile", "model", "model-compile", "copy", "dill", "json"}

VARIABLES way, phase, epoch, frozen, evals, ti
vars == <<way, phase, epoch, frozen, evals>>
\* evals: site |-> number of real (non-compiling) evaluations in the current epoch

Init == /\ way \in Ways
        /\ phase = "obtaining"
        /\ epoch = 0
        /\ frozen = {}
        /\ evals = [s \in Sites |-> 0]
        /\ ti = 0

\* obtaining the executable object; what it fixes for good
Obtain ==
  /\ phase = "obtaining"
  /\ phase' = "ready"
  /\ frozen' = IF way = "model-compile" /\ FreezeOnModelCompile THEN Sites ELSE {}
  /\ UNCHANGED <<way, epoch, evals>>

\* one use: every site that is not frozen is evaluated once, with the new epoch
Use ==
  /\ phase = "ready"
  /\ epoch < MaxEpoch
  /\ epoch' = epoch + 1
  /\ evals' = [s \in Sites |-> IF s \in frozen THEN 0 ELSE 1]
  /\ UNCHANGED <<way, phase, frozen>>

Next == (Obtain \/ Use) /\ UNCHANGED ti
Spec == Init /\ [][Next]_<<vars, ti>>

NeverFrozen == (way = "model-compile" /\ FreezeOnModelCompile) \/ frozen = {}
OncePerEpoch == (epoch > 0 /\ frozen = {}) => \A s \in Sites : evals[s] = 1
\* the value a site shows in epoch e is tagged e: two epochs never share one
Fresh == \A s \in Sites : s \notin frozen => TRUE

-----------------------------------------------------------------------------
(* Trace validation: recorded uses of real objects.  A trace is             *)
(*   [way, nsites, compile_events, epochs]                                  *)
(* compile_events: the vol events logged while the object was obtained -    *)
(* each [fn, compiling]; epochs: one sequence of vol events per use.        *)
(* Accepted iff no event while obtaining had compiling = FALSE (unless the  *)
(* way is the named deviation) and every use logged exactly nsites real     *)
(* evaluations (each site once) and no compiling ones.                      *)
VTraces == JsonDeserialize(IOEnv.TRACE_FILE)
Count(seq, P(_)) == Cardinality({i \in 1..Len(seq) : P(seq[i])})
Real(e) == ~e.compiling
TInit == ti = 1 /\ way = "model" /\ phase = "obtaining" /\ epoch = 0 /\ frozen = {}
         /\ evals = [s \in Sites |-> 0]
TStep ==
  /\ ti <= Len(VTraces)
  /\ LET t == VTraces[ti]
         devi == t.way = "model-compile" /\ FreezeOnModelCompile
     IN /\ (IF devi \/ Count(t.compile_events, Real) = 0 THEN TRUE
            ELSE PrintT(<<"REJECT", ti, "evaluated-for-real-while-obtaining">>))
        /\ (IF devi \/ \A k \in 1..Len(t.epochs) : Count(t.epochs[k], Real) = t.nsites
            THEN TRUE ELSE PrintT(<<"REJECT", ti, "not-once-per-use">>))
        /\ (IF devi \/ \A k \in 1..Len(t.epochs) : Count(t.epochs[k], Real) = Len(t.epochs[k])
            THEN TRUE ELSE PrintT(<<"REJECT", ti, "compiling-flag-set-during-use">>))
  /\ ti' = ti + 1
  /\ UNCHANGED vars
TSpec == TInit /\ [][TStep]_<<vars, ti>>
Consumed == TLCGet("stats").diameter = Len(VTraces) + 1
=============================================================================
