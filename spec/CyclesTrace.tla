---------------------------- MODULE CyclesTrace ----------------------------
(* Trace validation for C10 (cycle analysis): what the real simple_cycles    *)
(* yielded for a graph - [n, adj, yields] with nodes 1..n, adj[i] the        *)
(* successors of i, yields the cycles in the order they were produced.      *)
(* Accepted iff the yields, rotated to start at their smallest node, are    *)
(* exactly the elementary cycles of the graph, each once.                   *)
EXTENDS Naturals, Sequences, FiniteSets, TLC, Json, IOUtils, TLCExt

Traces == JsonDeserialize(IOEnv.TRACE_FILE)
VARIABLE ti

SeqSet(q) == {q[i] : i \in 1..Len(q)}
GraphOf(t) == [i \in 1..t.n |-> SeqSet(t.adj[i])]
SimpleSeqsN(n) == UNION {{p \in [1..k -> 1..n] : \A i, j \in 1..k : i # j => p[i] # p[j]} : k \in 1..n}
IsCycle(G, p) == /\ \A i \in 1..(Len(p) - 1) : p[i + 1] \in G[p[i]]
                 /\ p[1] \in G[p[Len(p)]]
Canonical(p) == \A i \in 2..Len(p) : p[1] < p[i]
ElementaryOf(t) == {p \in SimpleSeqsN(t.n) : IsCycle(GraphOf(t), p) /\ Canonical(p)}
MinOf(p) == CHOOSE m \in SeqSet(p) : \A i \in 1..Len(p) : m <= p[i]
Rotate(p) == LET k == CHOOSE i \in 1..Len(p) : p[i] = MinOf(p)
                 n == Len(p)
             IN [i \in 1..n |-> p[((k - 1 + i - 1) % n) + 1]]

TInit == ti = 1
TStep ==
  /\ ti <= Len(Traces)
  /\ LET t == Traces[ti]
         ys == [i \in 1..Len(t.yields) |-> Rotate(t.yields[i])]
     IN /\ (IF SeqSet(ys) = ElementaryOf(t) THEN TRUE ELSE PrintT(<<"REJECT", ti, "not-the-elementary-cycles">>))
        /\ (IF \A i, j \in 1..Len(ys) : ys[i] = ys[j] => i = j THEN TRUE
            ELSE PrintT(<<"REJECT", ti, "a-cycle-reported-twice">>))
  /\ ti' = ti + 1
TSpec == TInit /\ [][TStep]_ti
Consumed == TLCGet("stats").diameter = Len(Traces) + 1
=============================================================================
