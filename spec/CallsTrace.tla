----------------------------- MODULE CallsTrace -----------------------------
(* Trace validation for C11: the calls recorded from the real function table *)
(*   [fn, args, ans] = "fn called with these argument descriptors answered   *)
(*                      with a value of class ans"                           *)
(* are accepted iff each is a behaviour of Calls: the signature of fn is     *)
(* looked up in FnTable and the Call step must be able to produce ans.       *)
(* A non-conforming call is reported (REJECT <index>) and validation goes on.*)
EXTENDS Calls, TLCExt, IOUtils

Events == JsonDeserialize(IOEnv.TRACE_FILE)
VARIABLE l

SigOfName(name) == SigOf(FnTable[CHOOSE i \in 1..Len(FnTable) : FnTable[i].n = name])
Load(i) == /\ sig = SigOfName(Events[i].fn)
           /\ args = Events[i].args
           /\ ans = "pending"
TInit == l = 1 /\ Load(1)
\* the Call step with the recorded answer
TCall == /\ ans = "pending"
         /\ ans' = Events[l].ans
         /\ UNCHANGED <<sig, args, l>>
         /\ (IF Len(args) \in sig.lo..sig.hi /\ ans' \in Allowed(sig, args)
             THEN TRUE ELSE PrintT(<<"REJECT", l>>))
TLoadNext == /\ ans # "pending"
             /\ l < Len(Events)
             /\ l' = l + 1
             /\ sig' = SigOfName(Events[l + 1].fn)
             /\ args' = Events[l + 1].args
             /\ ans' = "pending"
TNext == TCall \/ TLoadNext
TSpec == TInit /\ [][TNext]_<<vars, l>>
TraceAccepted == TLCGet("stats").diameter = 2 * Len(Events)
=============================================================================
