------------------------------ MODULE XlOps ------------------------------
(* C02 - the one-step machine over XlOpsDef: a case is (operator, operands), *)
(* the step applies the operator.  One state per case of the pool.           *)
EXTENDS XlOpsDef

VARIABLES vop, va, vb, res        \* one case: operator, operands, result

Pending == [k |-> "pending"]

Init == /\ vop \in BinOps \cup UnOps
        /\ va \in PoolSet
        /\ vb \in (IF vop \in UnOps THEN {Blank} ELSE PoolSet)
        /\ res = Pending

\* the one step of the machine: the operator is applied to its operands
Apply == /\ res = Pending
         /\ res' = IF vop \in UnOps THEN Un(vop, va) ELSE Bin(vop, va, vb)
         /\ UNCHANGED <<vop, va, vb>>

Next == Apply
vars == <<vop, va, vb, res>>
Spec == Init /\ [][Next]_vars

\* an operator reads its operands, it never changes them (a blank stays blank after it was
\* coerced to 0 / "" / FALSE): what a later operator sees does not depend on earlier ones
OperandsKept == [][va' = va /\ vb' = vb]_vars

\* --- invariants (one state per case) ---
Done == res # Pending
WellFormed == Done => WellFormedResult(res)

LeftmostError ==
  Done =>
     /\ (va.k = "e" => res = va)
     /\ (vop \in BinOps /\ va.k # "e" /\ vb.k = "e" => res = vb)

CmpIsBool == (Done /\ vop \in CmpOps /\ va.k # "e" /\ vb.k # "e") => res.k = "b"

ConcatIsText == (Done /\ vop = "&" /\ va.k # "e" /\ vb.k # "e") => res.k = "t"

\* coercion is uniform: numeric text, logicals and blanks act as their numbers
CoercionConsistent ==
  (Done /\ vop \in ArithOps /\ va.k # "e" /\ vb.k # "e") =>
     LET x == Coerce(va)  y == Coerce(vb)
     IN IF x.k = "e" \/ y.k = "e" THEN res = Err("VALUE")
        ELSE res = Bin(vop, x, y)

\* --- obligations: the whole table, written once for the replay harness ---
Table ==
  [b \in BinOps |-> [i \in PoolIdx |-> [j \in PoolIdx |-> Bin(b, Pool[i], Pool[j])]]]
UTable ==
  [u \in UnOps |-> [i \in PoolIdx |-> Un(u, Pool[i])]]

Emit ==
  /\ TLCGet("stats").distinct >= 0
  /\ JsonSerialize(IOEnv.OUT_FILE, [pool |-> Pool, bin |-> Table, un |-> UTable])

=============================================================================
