--------------------------- MODULE ShuntingYard ---------------------------
(* C01 / C18 (implementation-shaped): the parser of formulas/parser.py and  *)
(* formulas/tokens/*.py as a machine that consumes one token per step.      *)
(*                                                                          *)
(* State record sy:                                                         *)
(*   ok     FALSE once the parser has raised its formula error              *)
(*   last   class of the previous entry of the code's `tokens` list:        *)
(*          "(" (an opening parenthesis), ")" , "operand", "sep", "%",      *)
(*          "op" (any other operator)                                       *)
(*   stack  operator stack: [t |-> "op", name, pred, n]                     *)
(*                          [t |-> "par", n, chk]   chk: ChkNZ / ChkAny /   *)
(*                                                  ChkEq(row length)       *)
(*                          [t |-> "fn", name]                              *)
(*   out    the builder's deque of trees                                    *)
(*   rpn    names in the order the builder receives them (trace binding)    *)
(*   pend   the lexer's pending sign: a run of + and - characters is one    *)
(*          token whose name is - iff the run holds an odd number of -      *)
(*          (OperatorToken.process) - the named deviation FoldSigns         *)
(* Each token class is one action of the code (`Token.ast`); the pop loops  *)
(* are folded into the step as recursive operators.                         *)
EXTENDS Grammar, Json

PredOf(name) ==
  CASE name = ":" -> 10          \* the range operator binds tightest,
    [] name = "_" -> 9           \* then the intersection,
    [] name = "," -> 8           \* then the union (Operator._precedences 8.6 / 8.3 / 8)
    [] name \in {"u-", "u+"} -> 7
    [] name = "%" -> 6
    [] name = "^" -> 5
    [] name \in {"*", "/"} -> 4
    [] name \in {"+", "-"} -> 3
    [] name = "&" -> 2
    [] OTHER -> 1
NArgsOf(name) == IF name \in {"u-", "u+", "%"} THEN 1 ELSE 2

ChkNZ == [k |-> "nz"]            \* the parenthesis must hold at least one argument
ChkAny == [k |-> "any"]          \* a function call may be empty
ChkEq(n) == [k |-> "eq", n |-> n]  \* an array row must be as long as the previous

OpE(name) == [t |-> "op", name |-> name]
ParE(chk) == [t |-> "par", n |-> 0, chk |-> chk, arr |-> FALSE]
ArrParE(chk) == [t |-> "par", n |-> 0, chk |-> chk, arr |-> TRUE]   \* opened by { or ;
FnE(name) == [t |-> "fn", name |-> name]

Top(st) == st[Len(st)]
Pop(st) == SubSeq(st, 1, Len(st) - 1)

Init0 == [ok |-> TRUE, last |-> "(", stack |-> <<ParE(ChkNZ)>>, out |-> <<>>,
          rpn |-> <<>>, pend |-> ""]
Bad(sy) == [sy EXCEPT !.ok = FALSE]

\* _update_n_args: an argument starts while an open parenthesis is on top
BumpArgs(stack) ==
  IF stack # <<>> /\ Top(stack).t = "par"
  THEN [stack EXCEPT ![Len(stack)].n = @ + 1] ELSE stack

\* operand of a reference operator as update_input_tokens accepts it
RefOperand(t) == IsRefTree(t)

\* builder.append of an operator or function entry e (n = number of arguments)
Emit(sy, name, n, isFn) ==
  IF ~sy.ok THEN sy
  ELSE IF Len(sy.out) < n THEN Bad(sy)
  ELSE LET k == Len(sy.out)
           args == SubSeq(sy.out, k - n + 1, k)
           rest == SubSeq(sy.out, 1, k - n)
           tree == IF isFn THEN Fn(name, args)
                   ELSE IF n = 1 THEN Un(name, args[1])
                   ELSE Bin(name, args[1], args[2])
       IN IF ~isFn /\ name \in {":", "_", ","} /\ ~(RefOperand(args[1]) /\ RefOperand(args[2]))
          THEN Bad(sy)
          ELSE [sy EXCEPT !.out = rest \o <<tree>>, !.rpn = @ \o <<name>>]

\* builder.append of an operand
PushOperand(sy, tree, name) ==
  [sy EXCEPT !.out = @ \o <<tree>>, !.rpn = @ \o <<name>>,
             !.stack = BumpArgs(@), !.last = "operand"]

\* while stack and stack[-1] is an operator with pred >= p: builder.append(pop)
RECURSIVE PopOps(_, _)
PopOps(sy, p) ==
  IF ~sy.ok \/ sy.stack = <<>> \/ Top(sy.stack).t # "op" THEN sy
  ELSE LET e == Top(sy.stack)
       IN IF p > PredOf(e.name) THEN sy
          ELSE PopOps(Emit([sy EXCEPT !.stack = Pop(@)], e.name, NArgsOf(e.name), FALSE), p)

\* while stack and not stack[-1].has_start: builder.append(pop)
RECURSIVE PopToParen(_)
PopToParen(sy) ==
  IF ~sy.ok \/ sy.stack = <<>> \/ Top(sy.stack).t = "par" THEN sy
  ELSE LET e == Top(sy.stack)
           s1 == [sy EXCEPT !.stack = Pop(@)]
       IN IF e.t = "op" THEN PopToParen(Emit(s1, e.name, NArgsOf(e.name), FALSE))
          ELSE Bad(sy)     \* a function marker without its parenthesis: n_args missing

RECURSIVE EmitUnions(_, _)
EmitUnions(sy, k) == IF k = 0 \/ ~sy.ok THEN sy ELSE EmitUnions(Emit(sy, ",", 2, FALSE), k - 1)

EmptyIfAfterSep(sy) ==   \* Empty().ast when the previous token is a separator
  IF sy.last = "sep" THEN PushOperand(sy, Empty, "") ELSE sy

\* ---- one action per token class ----------------------------------------
\* the previous token ends an operand: nothing that starts one may follow
OperandEnd == {"operand", ")", "%"}

StepOperand(sy, tok) ==
  IF sy.last \in OperandEnd THEN Bad(sy) ELSE PushOperand(sy, Leaf(tok), tok)

StepOperator(sy, tok) ==
  LET unary == tok \in SignToks /\ ~(sy.last \in {")", "%", "operand"})
      name == IF unary THEN "u" \o tok ELSE tok
      s1 == IF unary THEN [sy EXCEPT !.stack = BumpArgs(@)] ELSE sy
      s2 == PopOps(s1, PredOf(name))
  IN IF ~unary /\ ~(sy.last \in OperandEnd) THEN Bad(sy)   \* binary / postfix: needs an operand end
     ELSE IF tok = "%" /\ sy.last = "%" THEN Bad(sy)   \* deviation D1: the lexer reads %% as one, invalid, token
     ELSE IF ~s2.ok THEN s2
     ELSE IF name = "%" THEN [Emit(s2, "%", 1, FALSE) EXCEPT !.last = "%"]   \* postfix: complete at once
     ELSE [s2 EXCEPT !.stack = @ \o <<OpE(name)>>,
                     !.last = IF name = ":" THEN "colon" ELSE "op"]

StepSeparator(sy) ==
  LET s1 == IF sy.last \in {"sep", "("} THEN PushOperand(sy, Empty, "") ELSE sy
      s2 == PopToParen(s1)
  IN IF ~s2.ok \/ s2.stack = <<>> THEN Bad(s2) ELSE [s2 EXCEPT !.last = "sep"]

StepOpen(sy, chk) ==
  IF sy.last \in OperandEnd THEN Bad(sy)
  ELSE [sy EXCEPT !.stack = @ \o <<ParE(chk)>>, !.last = "("]

\* Function.ast: the function marker, then its parenthesis (whose operand
\* check sees the function token, so it never fires)
StepFunction(sy, name, chk, checkPrev, arr) ==
  IF checkPrev /\ sy.last \in OperandEnd THEN Bad(sy)
  ELSE [sy EXCEPT !.stack = @ \o <<FnE(name), IF arr THEN ArrParE(chk) ELSE ParE(chk)>>,
                  !.last = "("]

CheckN(p) == CASE p.chk.k = "nz" -> p.n > 0
               [] p.chk.k = "any" -> TRUE
               [] p.chk.k = "eq" -> p.n = p.chk.n

\* Parenthesis(')').ast ; returns the state plus the closed parenthesis' n
CloseRec(sy, arr) ==
  LET s1 == PopToParen(EmptyIfAfterSep(sy))
  IN IF ~s1.ok \/ s1.stack = <<>> THEN [sy |-> Bad(s1), n |-> 0]
     ELSE LET p == Top(s1.stack)
              s2 == [s1 EXCEPT !.stack = Pop(@)]
          IN IF p.arr # arr \/ ~CheckN(p) THEN [sy |-> Bad(s1), n |-> 0]   \* brace vs parenthesis
             ELSE LET s3 == IF s2.stack # <<>> /\ Top(s2.stack).t = "fn"
                            THEN Emit([s2 EXCEPT !.stack = Pop(@)], Top(s2.stack).name, p.n, TRUE)
                            ELSE IF p.n > 1 THEN EmitUnions(s2, p.n - 1)
                            ELSE s2
                  IN [sy |-> IF s3.ok THEN [s3 EXCEPT !.stack = BumpArgs(@), !.last = ")"] ELSE s3,
                      n |-> p.n]

StepClose(sy) == CloseRec(sy, FALSE).sy
StepCloseArr(sy) == CloseRec(sy, TRUE).sy

StepArrayOpen(sy) ==
  LET s1 == StepFunction(sy, "ARRAY", ChkNZ, TRUE, TRUE)
  IN IF ~s1.ok THEN s1 ELSE StepFunction(s1, "ARRAY", ChkNZ, TRUE, TRUE)

\* `;` and `}` are valid only inside the innermost array literal: the
\* innermost open parenthesis must sit directly on an ARRAY marker
RECURSIVE InnerPar(_, _)
InnerPar(stack, i) == IF i <= 1 \/ stack[i].t = "par" THEN i ELSE InnerPar(stack, i - 1)
InArray(sy) ==
  LET i == InnerPar(sy.stack, Len(sy.stack))
  IN i > 1 /\ sy.stack[i].t = "par" /\ sy.stack[i - 1].t = "fn" /\ sy.stack[i - 1].name = "ARRAY"

StepArraySep(sy) ==
  LET c == CloseRec(sy, TRUE)
  IN IF ~InArray(sy) THEN Bad(sy)
     ELSE IF ~c.sy.ok THEN c.sy ELSE StepFunction(c.sy, "ARRAY", ChkEq(c.n), FALSE, TRUE)

StepArrayClose(sy) ==
  LET c == StepCloseArr(sy)
  IN IF ~InArray(sy) THEN Bad(sy) ELSE IF ~c.ok THEN c ELSE StepCloseArr(c)

FoldSign(p, tok) == IF p = "" THEN tok ELSE IF p = tok THEN "+" ELSE "-"

FlushPend(sy) ==
  IF sy.pend = "" THEN sy ELSE StepOperator([sy EXCEPT !.pend = ""], sy.pend)

SYStepCore(sy, tok) ==
  IF ~sy.ok THEN sy
  ELSE CASE tok \in Operands -> StepOperand(sy, tok)
         [] tok = "," -> StepSeparator(sy)
         [] tok = "(" -> StepOpen(sy, ChkNZ)
         [] tok = ")" -> StepClose(sy)
         [] tok \in FnToks -> StepFunction(sy, FnName(tok), ChkAny, TRUE, FALSE)
         [] tok = "{" -> StepArrayOpen(sy)
         [] tok = ";" -> StepArraySep(sy)
         [] tok = "}" -> StepArrayClose(sy)
         [] OTHER -> StepOperator(sy, tok)

SYStep(sy, tok) ==
  IF ~sy.ok THEN sy
  ELSE IF tok \in SignToks THEN
     (IF sy.last = "colon" /\ sy.pend = "" THEN Bad(sy)   \* ":-" is one, invalid, lexer token
      ELSE [sy EXCEPT !.pend = FoldSign(@, tok)])
  ELSE LET s1 == SYStepCore(FlushPend(sy), tok)
       IN IF s1.ok /\ s1.stack = <<>> THEN Bad(s1) ELSE s1   \* implicit "(" closed

\* end of input: the implicit closing parenthesis, flush, exactly one tree
RECURSIVE Flush(_)
Flush(sy) ==
  IF ~sy.ok \/ sy.stack = <<>> THEN sy
  ELSE LET e == Top(sy.stack)
       IN IF e.t = "par" THEN Bad(sy)
          ELSE IF e.t = "op" THEN Flush(Emit([sy EXCEPT !.stack = Pop(@)], e.name, NArgsOf(e.name), FALSE))
          ELSE Bad(sy)

SYFinish(sy) ==
  LET s1 == Flush(StepClose(FlushPend(sy)))
  IN IF s1.ok /\ Len(s1.out) = 1 THEN [k |-> "acc", t |-> s1.out[1], rpn |-> s1.rpn]
     ELSE [k |-> "rej"]

RECURSIVE SYFeed(_, _)
SYFeed(sy, s) == IF s = <<>> THEN sy ELSE SYFeed(SYStep(sy, Head(s)), Tail(s))
SYParse(s) == SYFinish(SYFeed(Init0, s))

-----------------------------------------------------------------------------
(* The state space is the prefix tree of all token sequences over Alphabet. *)
CONSTANTS Alphabet, MaxLen, EmitObl

VARIABLES toks, sy
vars == <<toks, sy>>

\* (a configuration file cannot spell a token that holds quotes: SY_str.cfg takes this one)
StrAlphabet == {"1", "\"s\"", "IF(", ",", ")", "&", "{", "}", ";"}

Init == toks = <<>> /\ sy = Init0

\* White space is the intersection operator only between the end of one
\* operand and the start of the next; elsewhere it is insignificant and the
\* lexer produces no token for it.
OperandStart == Operands \cup FnToks \cup {"(", "{"}
Lexable(t) ==
  /\ (t = "_" => toks # <<>> /\ toks[Len(toks)] \in Operands \cup {")", "}", "%"})
  /\ (toks # <<>> /\ toks[Len(toks)] = "_" => t \in OperandStart)

Feed(t) == /\ Len(toks) < MaxLen
           /\ Lexable(t)
           /\ sy.ok
           /\ toks' = Append(toks, t)
           /\ sy' = SYStep(sy, t)

Next == \E t \in Alphabet : Feed(t)
Spec == Init /\ [][Next]_vars

TrailingSpace == toks # <<>> /\ toks[Len(toks)] = "_"
G == IF TrailingSpace THEN DC ELSE Grammar(toks)
F == SYFinish(sy)


\* Sign algebra: the normal form under which a folded sign run and the run
\* itself are the same expression over numbers.
RECURSIVE NSign(_), NArgs(_)
NArgs(args) == IF args = <<>> THEN <<>> ELSE <<NSign(args[1])>> \o NArgs(Tail(args))
Flip(op) == IF op = "+" THEN "-" ELSE "+"
NSign(t) ==
  CASE t.t = "un" /\ t.op \in {"u-", "u+"} ->
         (LET c == NSign(t.x)
          IN IF c.t = "un" /\ c.op \in {"u-", "u+"}
             THEN Un(IF c.op = t.op THEN "u+" ELSE "u-", c.x)
             ELSE Un(t.op, c))
    [] t.t = "un" ->             \* (-x)% = -(x%): the sign moves outwards
         (LET c == NSign(t.x)
          IN IF c.t = "un" /\ c.op \in {"u-", "u+"}
             THEN Un(c.op, Un(t.op, c.x)) ELSE Un(t.op, c))
    [] t.t = "bin" ->
         (LET l == NSign(t.l)  r == NSign(t.r)
              ls == l.t = "un" /\ l.op \in {"u-", "u+"}
              rs == r.t = "un" /\ r.op \in {"u-", "u+"}
          IN IF t.op \in {"+", "-"} /\ rs
             THEN Bin(IF r.op = "u-" THEN Flip(t.op) ELSE t.op, l, r.x)
             ELSE IF t.op \in {"*", "/"} /\ (ls \/ rs)    \* (s x) * y = s (x * y)
             THEN (LET neg == (ls /\ l.op = "u-") # (rs /\ r.op = "u-")
                   IN Un(IF neg THEN "u-" ELSE "u+",
                         Bin(t.op, IF ls THEN l.x ELSE l, IF rs THEN r.x ELSE r)))
             ELSE Bin(t.op, l, r))
    [] t.t = "fn" -> Fn(t.name, NArgs(t.args))
    [] OTHER -> t

RECURSIVE HasSignRun(_, _)
HasSignRun(s, i) ==
  IF i >= Len(s) THEN FALSE
  ELSE (s[i] \in SignToks /\ s[i + 1] \in SignToks) \/ HasSignRun(s, i + 1)
SignRun == HasSignRun(toks, 1)

(*  D2  FoldSigns: a sign run is folded before parsing; next to ^ that is   *)
(*      not meaning-preserving (=1+-2^2 is 1-(2^2), Excel 1+((-2)^2)).      *)
DevSignPow == SignRun /\ \E i \in 1..Len(toks) : toks[i] = "^"

(*  D1  "%%" (no white space between) is one lexer token and is rejected;   *)
(*      Excel reads x%% as (x%)%.                                            *)
RECURSIVE HasDoublePct(_, _)
HasDoublePct(s, i) ==
  IF i >= Len(s) THEN FALSE ELSE (s[i] = "%" /\ s[i + 1] = "%") \/ HasDoublePct(s, i + 1)
DevDoublePct == HasDoublePct(toks, 1)

Agree ==
  \/ G.k = "dc"
  \/ DevDoublePct /\ F.k = "rej"
  \/ G.k = "acc" /\ F.k = "acc" /\ G.t = F.t
  \/ G.k = "rej" /\ F.k = "rej"
  \/ SignRun /\ G.k = "acc" /\ F.k = "acc" /\ NSign(G.t) = NSign(F.t)
  \/ DevSignPow /\ G.k = "acc" /\ F.k = "acc"

\* what the builder received is the post-order of the tree it built
RpnIsPostOrder == F.k = "acc" => F.rpn = PostOrder(F.t)

\* the canonical rendering parses back to the same tree - up to the sign
\* algebra: the rendering writes a sign applied to x% as "-x%", which reads
\* back as (-x)%, the same value
RenderFix ==
  G.k = "acc" =>
     LET g2 == Grammar(RenderToks(G.t))
     IN g2.k = "acc" /\ NSign(g2.t) = NSign(G.t) /\ Render(g2.t) = Render(G.t)

\* redundant parentheses around the whole formula change nothing
RedundantParens == G.k = "acc" => Grammar(<<"(">> \o toks \o <<")">>) = G

TypeOK ==
  /\ sy.ok \in BOOLEAN
  /\ \A i \in 1..Len(sy.stack) : sy.stack[i].t \in {"op", "par", "fn"}
  /\ sy.last \in {"(", ")", "operand", "sep", "%", "op", "colon"}
  /\ sy.pend \in {"", "+", "-"}

\* obligations for the replay harness: one record per formula prefix
Obl ==
  EmitObl => PrintT("OBL " \o ToJson(
     [s |-> toks,
      g |-> G.k,
      f |-> F.k,
      r |-> IF G.k = "acc" THEN Render(G.t) ELSE "",
      p |-> IF G.k = "acc" THEN Prefix(G.t) ELSE <<>>]))
=============================================================================
