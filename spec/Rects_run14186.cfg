SPECIFICATION Spec
CONSTANTS
  N = 4
  M = 3
  EmitObl = TRUE
  FixedMergeRows = TRUE
INVARIANT InterExact
INVARIANT InterSingleNoDup
INVARIANT InterMultiplicity
INVARIANT UnionExact
INVARIANT BoundExact
INVARIANT BoundContains
INVARIANT SubExact
INVARIANT SimplifyExact
INVARIANT SplitPartition
INVARIANT InterComm
INVARIANT Obl
CHECK_DEADLOCK FALSE
