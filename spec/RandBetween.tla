---------------------------- MODULE RandBetween ----------------------------
(* C13 - "RANDBETWEEN returns an integer within its bounds".                *)
(* Bounds are rationals <<n, d>>; a draw is one of K equally likely slots.  *)
(* The result is the integer of the slot among ceil(bottom) .. floor(top),  *)
(* and #NUM! when no integer lies between the bounds.                       *)
EXTENDS Integers, Sequences, FiniteSets, TLC, Json

CONSTANTS EmitObl, K

Halves == {<<n, 2>> : n \in -7..7}                       \* -3.5 .. 3.5 in steps of 1/2
Tenths == {<<23, 10>>, <<28, 10>>, <<-27, 10>>, <<-22, 10>>, <<1, 10>>, <<9, 10>>, <<3, 1>>, <<5, 2>>}
Bounds == Halves \cup Tenths

Floor(q) == q[1] \div q[2]
Ceil(q) == -((-q[1]) \div q[2])
Leq(p, q) == p[1] * q[2] <= q[1] * p[2]

VARIABLES bottom, top, slot, res
vars == <<bottom, top, slot, res>>
Init == bottom \in Bounds /\ top \in Bounds /\ slot \in 0..(K - 1) /\ res = [k |-> "pending"]
Lo == Ceil(bottom)
Hi == Floor(top)
Draw == /\ res.k = "pending"
        /\ res' = IF Lo > Hi THEN [k |-> "num"]
                  ELSE [k |-> "int", n |-> Lo + (slot * (Hi - Lo + 1)) \div K]
        /\ UNCHANGED <<bottom, top, slot>>
Spec == Init /\ [][Draw]_vars
Done == res.k # "pending"

\* an integer, and within the bounds as they were given
InBounds == res.k = "int" => Leq(bottom, <<res.n, 1>>) /\ Leq(<<res.n, 1>>, top)
\* #NUM! exactly when no integer lies between the bounds
NumIffEmpty == Done => ((res.k = "num") = ~(\E n \in -5..5 : Leq(bottom, <<n, 1>>) /\ Leq(<<n, 1>>, top)))
\* the first and the last slot give the smallest and the largest integer
Ends == res.k = "int" => /\ (slot = 0 => res.n = Lo)
                         /\ (slot = K - 1 => res.n = Hi)

Obl == (EmitObl /\ Done /\ slot = 0) =>
   PrintT("OBL " \o ToJson([b |-> bottom, t |-> top,
                            allowed |-> IF Lo > Hi THEN {} ELSE Lo..Hi]))
=============================================================================
