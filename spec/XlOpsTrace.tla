--------------------------- MODULE XlOpsTrace ---------------------------
(* Trace validation for C02: events recorded from the real code            *)
(*   [op, a, b, r]  = "operator op applied to a and b returned r"          *)
(* are accepted iff each is a behaviour of XlOps: the Apply action, from   *)
(* the logged operands, produces a result class containing the logged r.   *)
(* A non-conforming event is reported (REJECT <index>) and the validation  *)
(* goes on, so the rest of the trace is still checked.                      *)
EXTENDS XlOps, TLCExt

Events == JsonDeserialize(IOEnv.TRACE_FILE)

VARIABLE l          \* index of the event being validated

Load(i) == /\ vop = Events[i].op
           /\ va = Events[i].a
           /\ vb = Events[i].b
           /\ res = Pending

TInit == l = 1 /\ Load(1)

TApply == /\ Apply
          /\ UNCHANGED l
          /\ (IF Matches(res', Events[l].r) THEN TRUE ELSE PrintT(<<"REJECT", l>>))

TLoadNext == /\ res # Pending
             /\ l < Len(Events)
             /\ l' = l + 1
             /\ vop' = Events[l + 1].op
             /\ va' = Events[l + 1].a
             /\ vb' = Events[l + 1].b
             /\ res' = Pending

TNext == TApply \/ TLoadNext
TSpec == TInit /\ [][TNext]_<<vars, l>>

\* every event was consumed: one pending and one done state per event
TraceAccepted == TLCGet("stats").diameter = 2 * Len(Events)
=============================================================================
