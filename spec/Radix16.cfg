CONSTANTS
  EmitObl = TRUE
  Base = 16
  MaxLen = 10
  Digits = {0, 8, 15}
SPECIFICATION Spec
INVARIANT LimbsOK
INVARIANT NegRange
INVARIANT AppendLaw
INVARIANT Obl
CHECK_DEADLOCK FALSE
